import AvroModel.Lemmas.TypedValue
import AvroModel.Theorems.C12typed
/-
C01 / C03 — typed targets are READ CORRECTLY (soundness half).

`C12_typed_consumes_all` says that a typed read that succeeds has consumed exactly the datum;
`C03_de_refines_spec` says what the self-describing read (`.any`) returns.  Here: WHAT a typed read
returns.  For EVERY request `h` (scalars with their coercions, `Option`, `Vec`, tuples, maps, structs
with any subset of the fields in any order, enums with unit / newtype / tuple / struct variants,
identifiers, `IgnoredAny`, at any nesting), every schema, node, configuration, depth budget, model
fuel and `favor` flag, on every layout with exact block sizes (`Spec.decodeX Limits.impl`):

    whatever the typed read returns is `consistent` with the encoded value
    (`Spec.observe S node v`, i.e. what `deserialize_any` delivers).

Only successful runs are looked at, so no hypothesis on depth, `max_seq_size` or fuel is needed: the
statement is stronger than asked.  No hint constructor is excluded.

`consistent` (`AvroModel/Lemmas/TypedValue.lean`) is `consistentOut` of `Driver/Main.lean` as a
structural definition, COMPLETED with the coercions of the visitor dispatch.  The driver's relation
alone is too strict — the statement is false for it (`C03_driver_relation_too_strict`: an `Option`
target on a `null`, `deserialize_str` on `bytes`, `deserialize_bytes` / `deserialize_tuple` on a
duration, an identifier on an `int`, a `u64` on an enum, an `i64` on a decimal).  One clause is
deliberately weak: `u64` against a string is not checked (enum index vs symbol needs the schema);
`C03_typed_enum_index` gives the precise statement for that pair at top level.

A function `projectOut : Hint → Out → Option Out` (what the typed target receives, computed from
the hint and the self-describing result alone) does NOT exist: `C03_no_projectOut` (same hint, same
self-describing result, different typed results — the dispatch looks at the schema node).

RESULTS
  * `C03_typed_value`            the soundness half, every request;
  * `C03_typed_value_spec`       the same with `Spec.decode` + "exact sizes" (shape of `C12_…_spec`);
  * `C03_typed_vs_any`           the relational form: a typed read against a self-describing read of
                                 the same input (independent configuration, fuel, depth);
  * `C03_typed_enum_index`       `u64` on an enum: the index of the symbol `deserialize_any` gives;
  * `C03_typed_value_needs_exact_sizes`  the hypothesis `decodeX` (not `decodeL`) is necessary;
  * `C03_driver_relation_too_strict`, `C03_no_projectOut`  see above.
ACCEPTANCE HALF: only a PARTIAL result, `C03_typed_accepts_shallow_partial`: for the shallow fragment
`shallowFits h node` (`Vec<Value>`-like `seq any` on any node but a duration, `map any any`, `i64` on
`long`, `f64` on `double`, `str` on `string`, `bytes` on `bytes`) the typed read IS the
self-describing read (`de_shallow_eq`), so on a valid layout it succeeds with exactly
`Spec.observe S node v`.  MISSING: `C03_typed_accepts` for the recursive `fits` (option on
`[null, T]`, seq / map / struct with typed children, enums).
-/
namespace Avro.Theorems
open Avro Avro.Spec Avro.Impl

/-- **C03, typed targets, relational form.**  A typed read and a self-describing read of the same
    input (each with its own configuration, fuel and depth budget), on an input that
    `decodeX Limits.impl` accepts: the typed result is consistent with the self-describing one, and
    both end in the same state. -/
theorem C03_typed_vs_any (cfg cfg2 : DeConfig) (S : Schema) (node : Node) (h : Hint)
    (depth depth2 fuel fuel2 : Nat) (favor : Bool) (s s' s2 : RState) (o' o : Out)
    (hs : s.isSlice = true) (hl : s.limit = none) (ha : s.avail = 0)
    (hexact : ∃ fuelX, (Spec.decodeX Limits.impl S fuelX node s.rest).isSome = true)
    (htyped : de deExtModel cfg S fuel node depth favor h s = (.ok o', s'))
    (hany : de deExtModel cfg2 S fuel2 node depth2 false .any s = (.ok o, s2)) :
    consistent o' o ∧ s' = s2 := by
  obtain ⟨fuelX, hx⟩ := hexact
  obtain ⟨⟨v, rest⟩, hx⟩ := Option.isSome_iff_exists.1 hx
  exact typed_value_run S cfg (allOk_closed S) node depth fuel favor h trivial s s' o' hs hl ha
    htyped cfg2 fuel2 depth2 o s2 hany ⟨fuelX, v, rest, hx⟩

/-- **C03, typed targets: what a typed read returns (soundness).**  For EVERY request `h`: on a
    valid layout with exact block sizes whose value the deserializer can represent (`hobs`), if the
    typed read succeeds, what it returns is consistent with the encoded value, and it has consumed
    exactly the datum. -/
theorem C03_typed_value (cfg : DeConfig) (S : Schema) (node : Node) (h : Hint)
    (v : Spec.Value) (bytes rest : Bytes) (o : Out) (depth fuelX fuel : Nat) (favor : Bool)
    (hdec : Spec.decodeX Limits.impl S fuelX node bytes = some (v, rest))
    (hobs : Spec.observe S node v = some o)
    (s s' : RState) (o' : Out)
    (hs : s.isSlice = true) (hl : s.limit = none) (ha : s.avail = 0) (hr : s.rest = bytes)
    (hrun : de deExtModel cfg S fuel node depth favor h s = (.ok o', s')) :
    consistent o' o ∧ s' = { s with rest := rest } := by
  have hL := Spec.decodeX_sub _ S fuelX node bytes _ hdec
  let cfg2 : DeConfig := { maxSeqSize := Spec.maxLen v, allowedDepth := Spec.depthOf v }
  have hany := C03_de_accepts_impl_layouts cfg2 S node v bytes rest o (Spec.depthOf v) fuelX hL hobs
    (Nat.le_refl _) (Nat.le_refl _) (3 * Spec.size v) (Nat.le_refl _) s hs hl ha hr
  subst hr
  exact C03_typed_vs_any cfg cfg2 S node h depth _ fuel _ favor s s' _ o' o hs hl ha
    ⟨fuelX, by rw [hdec]; rfl⟩ hrun hany

/-- the value part alone -/
theorem C03_typed_value_consistent (cfg : DeConfig) (S : Schema) (node : Node) (h : Hint)
    (v : Spec.Value) (bytes rest : Bytes) (o : Out) (depth fuelX fuel : Nat) (favor : Bool)
    (hdec : Spec.decodeX Limits.impl S fuelX node bytes = some (v, rest))
    (hobs : Spec.observe S node v = some o)
    (s s' : RState) (o' : Out)
    (hs : s.isSlice = true) (hl : s.limit = none) (ha : s.avail = 0) (hr : s.rest = bytes)
    (hrun : de deExtModel cfg S fuel node depth favor h s = (.ok o', s')) :
    consistent o' o :=
  (C03_typed_value cfg S node h v bytes rest o depth fuelX fuel favor hdec hobs s s' o' hs hl ha hr
    hrun).1

/-- The same with the hypotheses in the shape of `C03_de_refines_spec` / `C12_skip_all_layouts`:
    `Spec.decode` accepts the input as `(v, rest)`, within the implementation's limits and with
    exact block sizes. -/
theorem C03_typed_value_spec (cfg : DeConfig) (S : Schema) (node : Node) (h : Hint)
    (v : Spec.Value) (bytes rest : Bytes) (o : Out) (depth fuelS fuelX fuel : Nat) (favor : Bool)
    (hdec : Spec.decode S fuelS node bytes = some (v, rest))
    (hobs : Spec.observe S node v = some o)
    (hexact : (Spec.decodeX Limits.impl S fuelX node bytes).isSome = true)
    (s s' : RState) (o' : Out)
    (hs : s.isSlice = true) (hl : s.limit = none) (ha : s.avail = 0) (hr : s.rest = bytes)
    (hrun : de deExtModel cfg S fuel node depth favor h s = (.ok o', s')) :
    consistent o' o ∧ s' = { s with rest := rest } := by
  obtain ⟨x, hx⟩ := Option.isSome_iff_exists.1 hexact
  have := C12_decodeX_agrees S fuelX fuelS node bytes x (v, rest) hx hdec
  subst this
  exact C03_typed_value cfg S node h v bytes rest o depth fuelX fuel favor hx hobs s s' o' hs hl ha
    hr hrun

/-! ### The one unchecked clause, made precise at top level: `u64` on an enum -/

/-- `deserialize_u64` on an enum delivers the index of the symbol `deserialize_any` delivers. -/
theorem C03_typed_enum_index (cfg cfg2 : DeConfig) (S : Schema) (nm : Name) (syms : List String)
    (depth depth2 fuel fuel2 : Nat) (favor : Bool) (s s' s2 : RState) (o' o : Out)
    (hs : s.isSlice = true) (hl : s.limit = none) (ha : s.avail = 0)
    (htyped : de deExtModel cfg S fuel (.enum nm syms) depth favor .u64 s = (.ok o', s'))
    (hany : de deExtModel cfg2 S fuel2 (.enum nm syms) depth2 false .any s = (.ok o, s2)) :
    ∃ idx sym, o' = .u64 idx ∧ o = .str sym false ∧ syms[idx]? = some sym ∧ s' = s2 := by
  have e1 : s.mk' s.rest none = s := by
    obtain ⟨isS, r, av, sched, lc, ma, scr, lim⟩ := s
    simp only at hl
    subst hl
    rfl
  rw [← e1] at htyped hany
  cases fuel with
  | zero => rw [de] at htyped; simp [DeM.fail_apply] at htyped
  | succ g =>
  cases fuel2 with
  | zero => rw [de] at hany; simp [DeM.fail_apply] at hany
  | succ g1 =>
  rw [de] at hany
  cases g1 with
  | zero => rw [deAny] at hany; simp [DeM.fail_apply] at hany
  | succ g2 =>
  rw [de] at htyped
  rw [deAny] at hany
  have I1 : Inv (do let d ← readVarint .i64
                    if d < 0 then DeM.fail .custom else pure (Out.u64 d.toNat)) s.rest
      (fun o r => ∃ i : Int, decodeLongL Limits.impl s.rest = some (i, r) ∧ 0 ≤ i ∧
        o = .u64 i.toNat) := by
    refine Inv.bind (inv_varint_i64 s.rest) ?_
    intro i r hd
    split
    · exact Inv.fail _ _ _
    · exact Inv.pure ⟨i, hd, by omega, rfl⟩
  have I2 : Inv (do let d ← readDiscriminant
                    match syms[d]? with
                    | none => DeM.fail .custom
                    | some sym => pure (Out.str sym false)) s.rest
      (fun o r => ∃ dsc sym, decodeLenL Limits.impl s.rest = some (dsc, r) ∧
        syms[dsc]? = some sym ∧ o = .str sym false) := by
    refine Inv.bind (inv_readLen s.rest) ?_
    intro dsc r hd
    split
    · exact Inv.fail _ _ _
    · rename_i sym hsym
      exact Inv.pure ⟨dsc, sym, hd, hsym, rfl⟩
  obtain ⟨r1, rfl, i, h1, hi, rfl⟩ := I1 s ⟨hs, ha⟩ o' s' htyped
  obtain ⟨r2, rfl, dsc, sym, h2, hsym, rfl⟩ := I2 s ⟨hs, ha⟩ o s2 hany
  obtain ⟨j, hj, _, rfl⟩ := decodeLenL_inv h2
  rw [h1] at hj
  simp only [Option.some.injEq, Prod.mk.injEq] at hj
  obtain ⟨rfl, rfl⟩ := hj
  exact ⟨_, sym, rfl, rfl, hsym, rfl⟩

/-! ### Non-vacuity: the theorem on concrete, non-trivial inputs -/

/-- the struct target `struct T { c: i64, b: Option<i64>, a: Vec<i64> }` on the record
    `{a: [1, 2, 3] (two blocks, one sized), b: union branch 1 = 5, c: 7}` of `C12typed.lean`: every
    hypothesis of `C03_typed_value` instantiated; the run exists (`c12Typed_run`) -/
example (o' : Out) (s' : RState)
    (hrun : de deExtModel {} c12TypedSchema 50 c12TypedNode 64 false c12TypedHint
      { rest := c12TypedBytes } = (.ok o', s')) :
    consistent o' (.map [(.str "a" false, .seq [.i32 1, .i32 2, .i32 3]),
                         (.str "b" false, .i64 5), (.str "c" false, .i64 7)]) ∧
      s' = { rest := [0x2a] } :=
  C03_typed_value {} c12TypedSchema c12TypedNode c12TypedHint
    (.record [.array [.int 1, .int 2, .int 3], .union 1 (.long 5), .long 7]) c12TypedBytes [0x2a] _
    64 10 50 false (by rfl) (by rfl) { rest := c12TypedBytes } s' o' rfl rfl rfl rfl hrun

/-- … and what it says about the actual result: `b` is `Some(5)` against the self-describing `5` -/
example : consistent
    (.map [(.str "a" false, .seq [.i32 1, .i32 2, .i32 3]), (.str "b" false, .some (.i64 5)),
           (.str "c" false, .i64 7)])
    (.map [(.str "a" false, .seq [.i32 1, .i32 2, .i32 3]), (.str "b" false, .i64 5),
           (.str "c" false, .i64 7)]) :=
  (C03_typed_value {} c12TypedSchema c12TypedNode c12TypedHint
    (.record [.array [.int 1, .int 2, .int 3], .union 1 (.long 5), .long 7]) c12TypedBytes [0x2a] _
    64 10 50 false (by rfl) (by rfl) { rest := c12TypedBytes } _ _ rfl rfl rfl rfl c12Typed_run).1

/-- `consistent` is not trivial: a wrong value for `c` is not consistent -/
example : ¬ consistent
    (.map [(.str "a" false, .unit), (.str "b" false, .some (.i64 5)), (.str "c" false, .i64 8)])
    (.map [(.str "a" false, .seq [.i32 1, .i32 2, .i32 3]), (.str "b" false, .i64 5),
           (.str "c" false, .i64 7)]) := by
  simp [consistent, consistentM]

/-- an enum target with a newtype variant for the union branch `Long`, and a tuple target on an
    array behind it -/
example (o' : Out) (s' : RState)
    (hrun : de deExtModel {} c12TypedSchema 50 (.union [2, 3]) 64 false
      (.enum [("Null", .unit), ("Long", .newtype .i64)]) { rest := [0x02, 0x0a, 0x2a] } =
        (.ok o', s')) :
    consistent o' (.i64 5) ∧ s' = { rest := [0x2a] } :=
  C03_typed_value {} c12TypedSchema (.union [2, 3]) _ (.union 1 (.long 5)) [0x02, 0x0a, 0x2a] [0x2a]
    _ 64 10 50 false (by rfl) (by rfl) { rest := [0x02, 0x0a, 0x2a] } s' o' rfl rfl rfl rfl hrun

example (o' : Out) (s' : RState)
    (hrun : de deExtModel {} #[.int] 50 (.array 0) 64 false (.tuple 2 .any) { rest := c12Arr12 } =
      (.ok o', s')) :
    consistent o' (.seq [.i32 1, .i32 2]) ∧ s' = { rest := [0x0e] } :=
  C03_typed_value {} #[.int] (.array 0) (.tuple 2 .any) (.array [.int 1, .int 2]) c12Arr12 [0x0e] _
    64 10 50 false (by rfl) (by rfl) { rest := c12Arr12 } s' o' rfl rfl rfl rfl hrun

/-! ### The hypotheses -/

/-- **Exact block sizes are necessary.**  `c12WrongSize` (`C12layouts.lean`): the record
    `{a: [1], b: 0}` whose array block announces 2 bytes for a 1-byte item.  `Spec.decode` (and
    `decodeL Limits.impl`) accept it as `{a: [1], b: 0}`; the struct target that lacks `a` jumps 2
    bytes and SUCCEEDS with `b = 3`, which is not consistent with the encoded value. -/
theorem C03_typed_value_needs_exact_sizes :
    Spec.decodeL Limits.impl c12Schema 10 (.record c12Rec [("a", 1), ("b", 0)]) c12WrongSize =
      some (.record [.array [.int 1], .int 0], [0x06]) ∧
    Spec.observe c12Schema (.record c12Rec [("a", 1), ("b", 0)]) (.record [.array [.int 1], .int 0]) =
      some (.map [(.str "a" false, .seq [.i32 1]), (.str "b" false, .i32 0)]) ∧
    de deExtModel {} c12Schema 44 (.record c12Rec [("a", 1), ("b", 0)]) 64 false
        (.struct [("b", .any)]) { rest := c12WrongSize } =
      (.ok (.map [(.str "a" false, .unit), (.str "b" false, .i32 3)]), { rest := [] }) ∧
    ¬ consistent (.map [(.str "a" false, .unit), (.str "b" false, .i32 3)])
        (.map [(.str "a" false, .seq [.i32 1]), (.str "b" false, .i32 0)]) := by
  refine ⟨by rfl, by rfl, by with_unfolding_all rfl, by simp [consistent, consistentM]⟩

/-! ### The driver's relation alone is too strict; there is no `projectOut` -/

/-- Each line: a typed read and the self-describing read of the same bytes, both successful, whose
    results differ by a coercion of the visitor dispatch — `consistentOut` of the driver compares
    them with `unborrow · = unborrow ·` (none of its structural clauses applies) and says
    "VIOLATION"; `consistent` has a clause for each. -/
theorem C03_driver_relation_too_strict :
    -- `Option<T>` on `null`: `None` vs `unit`
    (de deExtModel {} #[] 5 .null 64 false (.option .any) { rest := [] } = (.ok .none, { rest := [] }) ∧
     de deExtModel {} #[] 5 .null 64 false .any { rest := [] } = (.ok .unit, { rest := [] }) ∧
     unborrow .none ≠ unborrow .unit ∧ consistent .none .unit) ∧
    -- `Option<i64>` on `union {null, long}`, branch 1: `Some(5)` vs `5`
    (de deExtModel {} c12TypedSchema 9 (.union [2, 3]) 64 false (.option .i64) { rest := [0x02, 0x0a] } =
       (.ok (.some (.i64 5)), { rest := [] }) ∧
     de deExtModel {} c12TypedSchema 9 (.union [2, 3]) 64 false .any { rest := [0x02, 0x0a] } =
       (.ok (.i64 5), { rest := [] }) ∧
     unborrow (.some (.i64 5)) ≠ unborrow (.i64 5) ∧ consistent (.some (.i64 5)) (.i64 5)) ∧
    -- `deserialize_str` on `bytes`
    (de deExtModel {} #[] 5 .bytes 64 false .str { rest := [0x02, 0x41] } =
       (.ok (.str "A" true), { rest := [] }) ∧
     de deExtModel {} #[] 5 .bytes 64 false .any { rest := [0x02, 0x41] } =
       (.ok (.bytes [0x41] true), { rest := [] }) ∧
     unborrow (.str "A" true) ≠ unborrow (.bytes [0x41] true)) ∧
    -- an identifier on an `int`
    (de deExtModel {} #[] 5 .int 64 false .identifier { rest := [0x02] } =
       (.ok (.u64 1), { rest := [] }) ∧
     de deExtModel {} #[] 5 .int 64 false .any { rest := [0x02] } = (.ok (.i32 1), { rest := [] }) ∧
     unborrow (.u64 1) ≠ unborrow (.i32 1) ∧ consistent (.u64 1) (.i32 1)) ∧
    -- `deserialize_u64` on an enum: the index vs the symbol
    (de deExtModel {} #[] 5 (.enum c12Rec ["x", "y"]) 64 false .u64 { rest := [0x02] } =
       (.ok (.u64 1), { rest := [] }) ∧
     de deExtModel {} #[] 5 (.enum c12Rec ["x", "y"]) 64 false .any { rest := [0x02] } =
       (.ok (.str "y" false), { rest := [] })) ∧
    -- `(u32, u32, u32)` on a duration: a sequence vs a map
    (de deExtModel {} #[] 5 .duration 64 false (.tuple 3 .any)
       { rest := [1, 0, 0, 0, 2, 0, 0, 0, 3, 0, 0, 0] } =
       (.ok (.seq [.u32 1, .u32 2, .u32 3]), { rest := [] }) ∧
     de deExtModel {} #[] 5 .duration 64 false .any { rest := [1, 0, 0, 0, 2, 0, 0, 0, 3, 0, 0, 0] } =
       (.ok (.map [(.str "months" false, .u32 1), (.str "days" false, .u32 2),
                   (.str "milliseconds" false, .u32 3)]), { rest := [] })) := by
  refine ⟨⟨?_, ?_, ?_, ?_⟩, ⟨?_, ?_, ?_, ?_⟩, ⟨?_, ?_, ?_⟩, ⟨?_, ?_, ?_, ?_⟩, ⟨?_, ?_⟩, ⟨?_, ?_⟩⟩
  all_goals first
    | (with_unfolding_all rfl)
    | (simp [unborrow])
    | (simp [consistent])

/-- **No `projectOut : Hint → Out → Option Out`.**  The same request (`deserialize_str`) and the
    same self-describing result (`bytes [41]`), two different typed results: on a `bytes` node the
    string `"A"`, on `union {bytes}` (the request is passed to `deserialize_any` behind a union) the
    bytes.  What a typed target receives is not a function of the hint and the self-describing
    result: the dispatch looks at the schema node. -/
theorem C03_no_projectOut :
    de deExtModel {} #[.bytes] 9 .bytes 64 false .any { rest := [0x02, 0x41] } =
      (.ok (.bytes [0x41] true), { rest := [] }) ∧
    de deExtModel {} #[.bytes] 9 (.union [0]) 64 false .any { rest := [0x00, 0x02, 0x41] } =
      (.ok (.bytes [0x41] true), { rest := [] }) ∧
    de deExtModel {} #[.bytes] 9 .bytes 64 false .str { rest := [0x02, 0x41] } =
      (.ok (.str "A" true), { rest := [] }) ∧
    de deExtModel {} #[.bytes] 9 (.union [0]) 64 false .str { rest := [0x00, 0x02, 0x41] } =
      (.ok (.bytes [0x41] true), { rest := [] }) ∧
    ¬ ∃ projectOut : Hint → Out → Option Out,
        projectOut .str (.bytes [0x41] true) = some (.str "A" true) ∧
        projectOut .str (.bytes [0x41] true) = some (.bytes [0x41] true) := by
  refine ⟨?_, ?_, ?_, ?_, ?_⟩
  · with_unfolding_all rfl
  · with_unfolding_all rfl
  · with_unfolding_all rfl
  · with_unfolding_all rfl
  · rintro ⟨p, h1, h2⟩
    rw [h1] at h2
    simp at h2

/-! ### Acceptance, partial: the shallow fragment -/

/-- **C03, acceptance for typed targets (PARTIAL: shallow fragment).**  With the hypotheses of
    `C03_de_refines_spec`, a request of the shallow fragment succeeds, returns exactly the encoded
    value and consumes exactly the datum (for every `favor`). -/
theorem C03_typed_accepts_shallow_partial (cfg : DeConfig) (S : Schema) (node : Node) (h : Hint)
    (hfit : shallowFits h node = true) (v : Spec.Value)
    (bytes rest : Bytes) (o : Out) (depth fuelS fuelL : Nat) (favor : Bool)
    (hdec : Spec.decode S fuelS node bytes = some (v, rest))
    (hobs : Spec.observe S node v = some o)
    (hlim : (Spec.decodeL Limits.impl S fuelL node bytes).isSome = true)
    (hdepth : Spec.depthOf v ≤ depth) (hseq : Spec.maxLen v ≤ cfg.maxSeqSize)
    (fuel : Nat) (hfuel : Spec.size v * 4 + 8 ≤ fuel)
    (s : RState) (hs : s.isSlice = true) (hl : s.limit = none) (ha : s.avail = 0)
    (hr : s.rest = bytes) :
    de deExtModel cfg S fuel node depth favor h s = (.ok o, { s with rest := rest }) := by
  obtain ⟨f, rfl⟩ : ∃ f, fuel = f + 2 := ⟨fuel - 2, by omega⟩
  rw [de_shallow_eq S cfg h node hfit f depth favor]
  exact C03_de_refines_spec cfg S node v bytes rest o depth fuelS fuelL hdec hobs hlim hdepth hseq
    (f + 2) hfuel s hs hl ha hr

/-- non-vacuity: `Vec<Value>` on `[1, 2, 3] : array<int>` in two blocks (`twoBlocks`, C03layouts) -/
example : de deExtModel {} #[.int] 44 (.array 0) 64 true (.seq .any) { rest := twoBlocks } =
    (.ok (.seq [.i32 1, .i32 2, .i32 3]), { rest := [] }) :=
  C03_typed_accepts_shallow_partial {} #[.int] (.array 0) (.seq .any) rfl
    (.array [.int 1, .int 2, .int 3]) twoBlocks [] (.seq [.i32 1, .i32 2, .i32 3]) 64 6 6 true
    (by rfl) (by rfl) (by rfl) (by decide) (by decide) 44 (by decide) { rest := twoBlocks }
    rfl rfl rfl rfl

/-- the fragment cannot simply be "every request": `Option<i64>` on a `long` succeeds but returns
    `Some(5)`, not the self-describing `5`; `(i32,)` on `[1, 2]` is an error -/
example :
    de deExtModel {} #[] 9 .long 64 false (.option .i64) { rest := [0x0a] } =
      (.ok (.some (.i64 5)), { rest := [] }) ∧
    (de deExtModel {} #[.int] 50 (.array 0) 64 false (.tuple 1 .any) { rest := c12Arr12 }).1 =
      .error .custom := by
  refine ⟨?_, ?_⟩ <;> with_unfolding_all rfl

end Avro.Theorems
