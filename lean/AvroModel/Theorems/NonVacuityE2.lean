import AvroModel.Theorems.C09globalC08
/-
Non-vacuity audit, area E, parser side of C09 (`C09_reparsed_has_same_pcf`,
`C09_reparsed_canonicalForm_eq`): the hypothesis "the rendered document parses" instantiated with the
real parser model on the graph `gE` of `NonVacuityE.lean` (same definition, repeated here because the
two files cannot share imports), at the driver's parameters (`graphFuel`, `n = 4 * jsonSize j + 8`);
a renderable graph with well-formed names whose document the parser rejects (unconditional record
cycle); and a graph where the fuel range of the conclusion misses the driver's fuel.
-/
namespace Avro.NonVacuityE2
open Avro Avro.Impl Avro.Theorems Avro.Spec.Pcf

/-- copy of `Driver.graphFuel` (`Driver/Main.lean`, line 29) -/
def graphFuel (S : SchemaMut) : Nat := (S.size + 2) * (S.size + 2) * (maxWidth S + 2) + 64

def gE : SchemaMut := #[
  ⟨.record ⟨"ns.Node", "Node", some "ns"⟩
      [("value", 1), ("next", 2), ("color", 3), ("more", 4), ("top", 6), ("top2", 6), ("box", 7)], none⟩,
  ⟨.long, some .timestampMicros⟩,
  ⟨.union [5, 0], none⟩,
  ⟨.enum ⟨"other.Color", "Color", some "other"⟩ ["R", "G"], none⟩,
  ⟨.array 3, none⟩,
  ⟨.null, none⟩,
  ⟨.fixed ⟨"Top", "Top", none⟩ 16, some (.decimal 2 10)⟩,
  ⟨.record ⟨"other.Box", "Box", some "other"⟩ [("c", 3), ("n", 2), ("t", 6), ("again", 4)], none⟩]

def jE : Json :=
  .obj [("type", .str "record"), ("name", .str "ns.Node"), ("fields", .arr [
    .obj [("name", .str "value"), ("type",
      .obj [("logicalType", .str "timestamp-micros"), ("type", .str "long")])],
    .obj [("name", .str "next"), ("type", .arr [.str "null", .str "Node"])],
    .obj [("name", .str "color"), ("type", .obj [("type", .str "enum"),
      ("name", .str "other.Color"), ("symbols", .arr [.str "R", .str "G"])])],
    .obj [("name", .str "more"), ("type",
      .obj [("type", .str "array"), ("items", .str "other.Color")])],
    .obj [("name", .str "top"), ("type", .obj [("logicalType", .str "decimal"),
      ("type", .str "fixed"), ("scale", .nat 2), ("precision", .nat 10),
      ("namespace", .str ""), ("name", .str "Top"), ("size", .nat 16)])],
    .obj [("name", .str "top2"), ("type", .str ".Top")],
    .obj [("name", .str "box"), ("type", .obj [("type", .str "record"),
      ("name", .str "other.Box"), ("fields", .arr [
        .obj [("name", .str "c"), ("type", .str "Color")],
        .obj [("name", .str "n"), ("type", .arr [.str "null", .str "ns.Node"])],
        .obj [("name", .str "t"), ("type", .str ".Top")],
        .obj [("name", .str "again"), ("type",
          .obj [("type", .str "array"), ("items", .str "Color")])]])])]])]

theorem graphFuel_gE : graphFuel gE = 964 := by decide +kernel

theorem gE_render : renderJson gE (graphFuel gE) = .ok jE := by
  rw [graphFuel_gE]; rfl


def gE2 : SchemaMut := #[
  ⟨.record ⟨"ns.Node", "Node", some "ns"⟩
      [("value", 1), ("next", 2), ("color", 4), ("more", 5), ("top", 6), ("top2", 6), ("box", 7)], none⟩,
  ⟨.long, some .timestampMicros⟩,
  ⟨.union [3, 0], none⟩,
  ⟨.null, none⟩,
  ⟨.enum ⟨"other.Color", "Color", some "other"⟩ ["R", "G"], none⟩,
  ⟨.array 4, none⟩,
  ⟨.fixed ⟨"Top", "Top", none⟩ 16, some (.decimal 2 10)⟩,
  ⟨.record ⟨"other.Box", "Box", some "other"⟩ [("c", 4), ("n", 8), ("t", 6), ("again", 10)], none⟩,
  ⟨.union [9, 0], none⟩,
  ⟨.null, none⟩,
  ⟨.array 4, none⟩]

/-- the driver's `jsonSize` (`Driver/Parse.lean`, a `partial def` there) -/
def jsonSize : Json → Nat
  | .arr items => 1 + sizeL items
  | .obj ms => 1 + sizeM ms
  | _ => 1
where
  sizeL : List Json → Nat
    | [] => 0
    | j :: r => jsonSize j + sizeL r
  sizeM : List (String × Json) → Nat
    | [] => 0
    | (_, j) :: r => jsonSize j + sizeM r

example : 4 * jsonSize jE + 8 = 256 := by decide +kernel

def parseOpt (j : Json) (n : Nat) : Option SchemaMut :=
  match parseJson j n with | .ok S => some S | .error _ => none

theorem parseOpt_some {j : Json} {n : Nat} {S : SchemaMut} (h : parseOpt j n = some S) :
    parseJson j n = .ok S := by
  unfold parseOpt at h
  cases hp : parseJson j n with
  | ok S' => rw [hp] at h; cases h; rfl
  | error e => rw [hp] at h; cases h

theorem jE_parse : parseJson jE 256 = .ok gE2 := parseOpt_some (by decide +kernel)

example : ∃ text, parsingCanonicalForm jE = some text ∧
      (∀ fuel', graphFuel gE ≤ fuel' → canonicalForm gE fuel' = .ok text) ∧
      (∀ fuel'', 256 + 2 ≤ fuel'' → canonicalForm gE2 fuel'' = .ok text) :=
  C09_reparsed_has_same_pcf gE (graphFuel gE) jE 256 gE2
    (RenderPcf.namesWF_of_b gE (by decide +kernel)) gE_render jE_parse

example : canonicalForm gE2 (graphFuel gE2) = canonicalForm gE (graphFuel gE) :=
  C09_reparsed_canonicalForm_eq gE (graphFuel gE) jE 256 gE2 (by decide +kernel) gE_render jE_parse
    (graphFuel gE) (graphFuel gE2) (Nat.le_refl _) (by decide +kernel)


/-- hparse is not implied by hwf + hrender: a record that contains itself unconditionally renders, and the parser's cycle check rejects the document -/
def gSelf : SchemaMut := #[⟨.record ⟨"n.R", "R", some "n"⟩ [("f", 0), ("g", 1)], none⟩, ⟨.int, none⟩]
def jSelf : Json := .obj [("type", .str "record"), ("name", .str "n.R"), ("fields", .arr [
  .obj [("name", .str "f"), ("type", .str "R")], .obj [("name", .str "g"), ("type", .str "int")]])]

example : RenderPcf.namesWFb gSelf = true := by decide +kernel
example : renderJson gSelf (graphFuel gSelf) = .ok jSelf := by rfl
example : 4 * jsonSize jSelf + 8 = 48 := by decide +kernel
example : parseOpt jSelf 48 = none := by decide +kernel
example : (match parseJson jSelf 48 with | .error .cycle => true | _ => false) = true := by decide +kernel

/-- the fuel range of the conclusion (`n + 2 ≤ fuel''`) need not contain the driver's fuel -/
def gEnum : SchemaMut := #[⟨.enum ⟨"E", "E", none⟩
  ["a", "b", "c", "d", "e", "f", "g", "h", "i", "j", "k", "l", "m", "n", "o"], none⟩]
def jEnum : Json := .obj [("type", .str "enum"), ("name", .str "E"), ("symbols", .arr
  [.str "a", .str "b", .str "c", .str "d", .str "e", .str "f", .str "g", .str "h", .str "i", .str "j",
   .str "k", .str "l", .str "m", .str "n", .str "o"])]

theorem gEnum_render : renderJson gEnum (graphFuel gEnum) = .ok jEnum := by rfl
theorem jEnum_parse : parseJson jEnum (4 * jsonSize jEnum + 8) = .ok gEnum := parseOpt_some (by decide +kernel)
example : 4 * jsonSize jEnum + 8 = 84 ∧ graphFuel gEnum = 82 := by decide +kernel

example : ∃ text, parsingCanonicalForm jEnum = some text ∧
      (∀ fuel', graphFuel gEnum ≤ fuel' → canonicalForm gEnum fuel' = .ok text) ∧
      (∀ fuel'', 4 * jsonSize jEnum + 8 + 2 ≤ fuel'' → canonicalForm gEnum fuel'' = .ok text) :=
  C09_reparsed_has_same_pcf gEnum (graphFuel gEnum) jEnum _ gEnum
    (RenderPcf.namesWF_of_b gEnum (by decide +kernel)) gEnum_render jEnum_parse

example : ¬ (4 * jsonSize jEnum + 8 + 2 ≤ graphFuel gEnum) := by decide +kernel

end Avro.NonVacuityE2
