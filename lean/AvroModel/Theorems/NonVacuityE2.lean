import AvroModel.Theorems.C09globalC08
import AvroModel.Theorems.GraphFuel
import AvroModel.Theorems.NonVacuityE
/-
Non-vacuity audit, area E, parser side of C09 (`C09_reparsed_has_same_pcf`,
`C09_reparsed_canonicalForm_eq` and their corollaries `*_at_graphFuel` of
`Theorems/GraphFuel.lean`): the hypothesis "the rendered document parses" instantiated with the
real parser model on the graph `gE` of `NonVacuityE.lean`, at the driver's parameters (the real
`Avro.Impl.graphFuel`, `n = 4 * jsonSize j + 8`); a renderable graph with well-formed names whose
document the parser rejects (unconditional record cycle); and a graph where the fuel range of the
original conclusion misses the driver's fuel while the `_at_graphFuel` corollary concludes at it.
-/
namespace Avro.NonVacuityE2
open Avro Avro.Impl Avro.Theorems Avro.Spec.Pcf Avro.NonVacuityE

def gE2 : SchemaMut := #[
  ⟨.record ⟨"ns.Node", "Node", some "ns"⟩
      [("value", 1), ("next", 2), ("color", 4), ("more", 5), ("top", 6), ("top2", 6), ("box", 7)], none⟩,
  ⟨.long, some .timestampMicros⟩,
  ⟨.union [3, 0], none⟩,
  ⟨.null, none⟩,
  ⟨.enum ⟨"other.Color", "Color", some "other"⟩ ["R", "G"], none⟩,
  ⟨.array 4, none⟩,
  ⟨.fixed ⟨"Top", "Top", none⟩ 16, some (.decimal 2 10)⟩,
  ⟨.record ⟨"other.Box", "Box", some "other"⟩ [("c", 4), ("n", 8), ("t", 6), ("again", 10)], none⟩,
  ⟨.union [9, 0], none⟩,
  ⟨.null, none⟩,
  ⟨.array 4, none⟩]

/-- the driver's `jsonSize` (`Driver/Parse.lean`, a `partial def` there) -/
def jsonSize : Json → Nat
  | .arr items => 1 + sizeL items
  | .obj ms => 1 + sizeM ms
  | _ => 1
where
  sizeL : List Json → Nat
    | [] => 0
    | j :: r => jsonSize j + sizeL r
  sizeM : List (String × Json) → Nat
    | [] => 0
    | (_, j) :: r => jsonSize j + sizeM r

example : 4 * jsonSize jE + 8 = 256 := by decide +kernel

def parseOpt (j : Json) (n : Nat) : Option SchemaMut :=
  match parseJson j n with | .ok S => some S | .error _ => none

theorem parseOpt_some {j : Json} {n : Nat} {S : SchemaMut} (h : parseOpt j n = some S) :
    parseJson j n = .ok S := by
  unfold parseOpt at h
  cases hp : parseJson j n with
  | ok S' => rw [hp] at h; cases h; rfl
  | error e => rw [hp] at h; cases h

theorem jE_parse : parseJson jE 256 = .ok gE2 := parseOpt_some (by decide +kernel)

example : ∃ text, parsingCanonicalForm jE = some text ∧
      (∀ fuel', graphFuel gE ≤ fuel' → canonicalForm gE fuel' = .ok text) ∧
      (∀ fuel'', 256 + 2 ≤ fuel'' → canonicalForm gE2 fuel'' = .ok text) :=
  C09_reparsed_has_same_pcf gE (graphFuel gE) jE 256 gE2
    (RenderPcf.namesWF_of_b gE (by decide +kernel)) gE_render jE_parse

example : canonicalForm gE2 (graphFuel gE2) = canonicalForm gE (graphFuel gE) :=
  C09_reparsed_canonicalForm_eq gE (graphFuel gE) jE 256 gE2 (by decide +kernel) gE_render jE_parse
    (graphFuel gE) (graphFuel gE2) (Nat.le_refl _) (by decide +kernel)

/-- the corollaries at the driver's fuel: no arithmetic side condition left -/
example : ∃ text, parsingCanonicalForm jE = some text ∧
      canonicalForm gE (graphFuel gE) = .ok text ∧ canonicalForm gE2 (graphFuel gE2) = .ok text :=
  C09_reparsed_has_same_pcf_at_graphFuel gE jE 256 gE2
    (RenderPcf.namesWF_of_b gE (by decide +kernel)) gE_render jE_parse

example : canonicalForm gE2 (graphFuel gE2) = canonicalForm gE (graphFuel gE) :=
  C09_reparsed_canonicalForm_eq_at_graphFuel gE jE 256 gE2 (by decide +kernel) gE_render jE_parse

example : schemaFingerprint gE2 (graphFuel gE2) = schemaFingerprint gE (graphFuel gE) :=
  C09_reparsed_fingerprint_eq_at_graphFuel gE jE 256 gE2 (by decide +kernel) gE_render jE_parse

example : ∃ text, parsingCanonicalForm jE = some text ∧ canonicalForm gE2 (graphFuel gE2) = .ok text :=
  C08_pcf_is_spec_text_at_graphFuel jE 256 gE2 jE_parse
    (C09_render_has_graph_pcf_at_graphFuel gE jE gE_wf gE_render).1


/-- hparse is not implied by hwf + hrender: a record that contains itself unconditionally renders, and the parser's cycle check rejects the document -/
def gSelf : SchemaMut := #[⟨.record ⟨"n.R", "R", some "n"⟩ [("f", 0), ("g", 1)], none⟩, ⟨.int, none⟩]
def jSelf : Json := .obj [("type", .str "record"), ("name", .str "n.R"), ("fields", .arr [
  .obj [("name", .str "f"), ("type", .str "R")], .obj [("name", .str "g"), ("type", .str "int")]])]

example : RenderPcf.namesWFb gSelf = true := by decide +kernel
example : renderJson gSelf (graphFuel gSelf) = .ok jSelf := by rfl
example : 4 * jsonSize jSelf + 8 = 48 := by decide +kernel
example : parseOpt jSelf 48 = none := by decide +kernel
example : (match parseJson jSelf 48 with | .error .cycle => true | _ => false) = true := by decide +kernel

/-- the fuel range of the conclusion (`n + 2 ≤ fuel''`) need not contain the driver's fuel -/
def gEnum : SchemaMut := #[⟨.enum ⟨"E", "E", none⟩
  ["a", "b", "c", "d", "e", "f", "g", "h", "i", "j", "k", "l", "m", "n", "o"], none⟩]
def jEnum : Json := .obj [("type", .str "enum"), ("name", .str "E"), ("symbols", .arr
  [.str "a", .str "b", .str "c", .str "d", .str "e", .str "f", .str "g", .str "h", .str "i", .str "j",
   .str "k", .str "l", .str "m", .str "n", .str "o"])]

theorem gEnum_render : renderJson gEnum (graphFuel gEnum) = .ok jEnum := by rfl
theorem jEnum_parse : parseJson jEnum (4 * jsonSize jEnum + 8) = .ok gEnum := parseOpt_some (by decide +kernel)
example : 4 * jsonSize jEnum + 8 = 84 ∧ graphFuel gEnum = 82 := by decide +kernel

example : ∃ text, parsingCanonicalForm jEnum = some text ∧
      (∀ fuel', graphFuel gEnum ≤ fuel' → canonicalForm gEnum fuel' = .ok text) ∧
      (∀ fuel'', 4 * jsonSize jEnum + 8 + 2 ≤ fuel'' → canonicalForm gEnum fuel'' = .ok text) :=
  C09_reparsed_has_same_pcf gEnum (graphFuel gEnum) jEnum _ gEnum
    (RenderPcf.namesWF_of_b gEnum (by decide +kernel)) gEnum_render jEnum_parse

example : ¬ (4 * jsonSize jEnum + 8 + 2 ≤ graphFuel gEnum) := by decide +kernel

/-- … and the corollaries at the driver's fuel do conclude there (82, outside `86 ≤ fuel''`) -/
example : ∃ text, parsingCanonicalForm jEnum = some text ∧
      canonicalForm gEnum (graphFuel gEnum) = .ok text ∧
      canonicalForm gEnum (graphFuel gEnum) = .ok text :=
  C09_reparsed_has_same_pcf_at_graphFuel gEnum jEnum _ gEnum
    (RenderPcf.namesWF_of_b gEnum (by decide +kernel)) gEnum_render jEnum_parse

example : ∃ c, canon none jEnum = some c ∧ canonicalForm gEnum (graphFuel gEnum) = .ok (print c) :=
  C08_pcf_is_spec_at_graphFuel jEnum _ gEnum jEnum_parse (by decide +kernel)

/-- `C07_valid_parses_checked_at_graphFuel` on the same document at the driver's `n` -/
example : ∃ S text, parseJson jEnum (4 * jsonSize jEnum + 8) = .ok S ∧
      parsingCanonicalForm jEnum = some text ∧ canonicalForm S (graphFuel S) = .ok text :=
  C07_valid_parses_checked_at_graphFuel jEnum _ (by decide +kernel) (by decide +kernel)
    (by decide +kernel) (by decide +kernel)

end Avro.NonVacuityE2
