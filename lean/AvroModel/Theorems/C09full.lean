import AvroModel.Theorems.C09
import AvroModel.Theorems.C09global
/-
C09 — all parts that can live in one module: the local spelling lemmas (`C09.lean`) and the global
statement `C09_render_has_graph_pcf` (`C09global.lean`): the JSON the crate renders for a node graph,
read by the specification's own transformation, has exactly the canonical form the crate computes
from the graph. Its composition with C08 (`C09globalC08.lean`: a re-parse of the rendered document
has the canonical form of the schema in use) is a module of its own, because `Lemmas/SchemaParse`
and `Lemmas/SchemaRender` declare some names twice.
-/
