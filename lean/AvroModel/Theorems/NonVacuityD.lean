import AvroModel.Theorems.C07full
import AvroModel.Theorems.C08full
import AvroModel.Theorems.GraphFuel
/-
Non-vacuity audit, area D: properties C07 (schema document parser) and C08 (Parsing Canonical
Form, CRC-64-AVRO fingerprint).  (SchemaParse side of the import graph, plus
`Theorems/GraphFuel.lean` for the corollaries at the driver's `graphFuel`.)

Contents
 A. The registration fuel of the driver (`parseJson j (4 * jsonSize j + 8)`) dominates the
    `schemaSize j ≤ n` hypothesis of `C07_valid_parses*` — for EVERY document
    (`schemaSize_le_driver_fuel`), so that hypothesis is never the reason the theorem does not
    apply to a run of the driver; the fuel range of the conclusion about `canonicalForm`
    (`n + 2 ≤ fuel`) however does NOT contain the driver's `graphFuel S` when instantiated at the
    driver's `n` (`padded_fuel_gap`); the corollaries `C07_*_at_graphFuel` / `C08_*_at_graphFuel`
    (`Theorems/GraphFuel.lean`) conclude at `graphFuel S` itself (`padded_at_graphFuel`,
    `valid_parses_at_driver_fuels`).
 B. One document with namespaces, a record recursive through an array and through a union, an
    enum, a fixed with a `decimal` logical type, references spelled relative to the enclosing
    namespace: every hypothesis of `C07_valid_parses`, `C07_valid_parses_and_resolves`,
    `C08_pcf_is_spec` evaluated, the theorems instantiated, graph and text shown.
 C. The theorems about abstract registration states (`C07_register_extends`, `C07_def_binds`,
    `C07_node_stable`, `C07_order_independent_ref`, `C07_forward_ref_eq_late_lookup`,
    `C07_backward_ref_stable`, `C07_resolveKeys_*`, `C07_rejects_*`, `C07_preserves_record`) on
    the states the real `registerNode` goes through on a concrete document.
    FINDING (repaired): `PState.Le st1 stF` is FALSE when `st1` is the state in which a reference
    (or any nested node) was registered and `stF` is the FINAL registration state
    (`le_to_final_state_fails`, `node_stable_hyp_fails_for_final_state`): the slot of the
    enclosing record / array / map / union is a placeholder in `st1` and is overwritten when the
    enclosing node is completed.  The four theorems that had a `hle : _.Le stF` hypothesis are now
    stated with `PState.LeNU` (names / unresolved only) resp. `PState.LeExcept op` (all slots but
    the enclosing placeholders `op`) and are instantiated here on the REAL FINAL state of a real
    `registerNode` run (`leX_1_F`, `leNU_1_F` obtained from `registerObject_inner` on the real
    call).
 D. `C07_cycle_check_iff`, both directions, on graphs the parser really builds.
 E. CRC-64-AVRO: `C08_fold`, `C08_fingerprint_bytes`, `C18_fingerprint_is_crc` on `"int"` (the
    published value 8247732601305521295) and on the crate's own test vector
    (`tests/round_trips.rs`, `complex_schema_parsing_serialization_round_trip`:
    `[18, 207, 199, 195, 150, 81, 210, 28]`).
 F. `C08pcf` theorems on the parsed graph of B; a remark on strings that would need a JSON escape.
-/
namespace Avro.Theorems.NonVacuityD
open Avro Avro.Impl Avro.Spec Avro.Spec.Pcf Avro.PcfSpec Avro.ValidParses Avro.Theorems

deriving instance DecidableEq for PKey, PType, PNode, PState
deriving instance DecidableEq for Except

/-! ## A. the fuel the driver supplies -/

mutual
/-- `Driver/Parse.lean`, `jsonSize` (a `partial def` there, hence opaque to proofs): one per JSON
    value; transcribed structurally. -/
def jsonSizeT : Json → Nat
  | .arr items => 1 + jsonSizeTList items
  | .obj ms => 1 + jsonSizeTMembers ms
  | _ => 1
def jsonSizeTList : List Json → Nat
  | [] => 0
  | j :: rest => jsonSizeT j + jsonSizeTList rest
def jsonSizeTMembers : List (String × Json) → Nat
  | [] => 0
  | (_, v) :: rest => jsonSizeT v + jsonSizeTMembers rest
end

/-- `Driver/Main.lean`: `parseJson j (4 * jsonSize j + 8)` -/
def driverFuel (j : Json) : Nat := 4 * jsonSizeT j + 8

/-- `Driver/Main.lean`, `graphFuel` (fuel of `canonicalForm` in `runSchema`, `runGraph`, ...): the
    REAL definition `Avro.Impl.graphFuel` (`Lemmas/DriverFuel.lean`) the driver uses -/
abbrev graphFuelD (S : SchemaMut) : Nat := graphFuel S

theorem schemaSize_le_jsonSizeT_aux :
    (∀ j, schemaSize j + 1 ≤ 4 * jsonSizeT j ∧
      (∀ l, j = .arr l → sizeFields l ≤ 4 * jsonSizeTList l) ∧
      (∀ m, j = .obj m → ∀ key, sizeAttr key m ≤ 4 * jsonSizeTMembers m)) ∧
    (∀ l, sizeList l ≤ 4 * jsonSizeTList l ∧ sizeFields l ≤ 4 * jsonSizeTList l) ∧
    (∀ m, (∀ key, sizeAttr key m ≤ 4 * jsonSizeTMembers m) ∧
      sizeAttr "items" m + sizeAttr "values" m + sizeFieldsAttr m ≤ 4 * jsonSizeTMembers m) := by
  apply json_ind
    (fun j => schemaSize j + 1 ≤ 4 * jsonSizeT j ∧
      (∀ l, j = .arr l → sizeFields l ≤ 4 * jsonSizeTList l) ∧
      (∀ m, j = .obj m → ∀ key, sizeAttr key m ≤ 4 * jsonSizeTMembers m))
    (fun l => sizeList l ≤ 4 * jsonSizeTList l ∧ sizeFields l ≤ 4 * jsonSizeTList l)
    (fun m => (∀ key, sizeAttr key m ≤ 4 * jsonSizeTMembers m) ∧
      sizeAttr "items" m + sizeAttr "values" m + sizeFieldsAttr m ≤ 4 * jsonSizeTMembers m)
  · exact ⟨by simp [schemaSize, jsonSizeT], (by intro l h; cases h), (by intro m h; cases h)⟩
  · intro b; exact ⟨by simp [schemaSize, jsonSizeT], (by intro l h; cases h), (by intro m h; cases h)⟩
  · intro n; exact ⟨by simp [schemaSize, jsonSizeT], (by intro l h; cases h), (by intro m h; cases h)⟩
  · exact ⟨by simp [schemaSize, jsonSizeT], (by intro l h; cases h), (by intro m h; cases h)⟩
  · intro s; exact ⟨by simp [schemaSize, jsonSizeT], (by intro l h; cases h), (by intro m h; cases h)⟩
  · intro l ⟨h1, h2⟩
    refine ⟨by simp only [schemaSize, jsonSizeT]; omega, ?_, (by intro m h; cases h)⟩
    intro l' h; cases h; exact h2
  · intro m ⟨h1, h2⟩
    refine ⟨by simp only [schemaSize, jsonSizeT]; omega, (by intro l h; cases h), ?_⟩
    intro m' h; cases h; exact h1
  · exact ⟨by simp [sizeList], by simp [sizeFields]⟩
  · intro j l ⟨hj, hjl, hjm⟩ ⟨h1, h2⟩
    refine ⟨by simp only [sizeList, jsonSizeTList]; omega, ?_⟩
    cases j with
    | obj fm =>
      have := hjm fm rfl "type"
      simp only [sizeFields, jsonSizeTList, jsonSizeT]; omega
    | null => simp only [sizeFields, jsonSizeTList, jsonSizeT]; omega
    | bool b => simp only [sizeFields, jsonSizeTList, jsonSizeT]; omega
    | nat n => simp only [sizeFields, jsonSizeTList, jsonSizeT]; omega
    | numOther => simp only [sizeFields, jsonSizeTList, jsonSizeT]; omega
    | str s => simp only [sizeFields, jsonSizeTList, jsonSizeT]; omega
    | arr a => simp only [sizeFields, jsonSizeTList, jsonSizeT] at hj ⊢; omega
  · exact ⟨by intro key; simp [sizeAttr], by simp [sizeAttr, sizeFieldsAttr]⟩
  · intro k v m ⟨hv, hvl, hvm⟩ ⟨h1, h2⟩
    have hkey : ∀ key, sizeAttr key ((k, v) :: m) ≤ 4 * jsonSizeTMembers ((k, v) :: m) := by
      intro key
      have := h1 key
      simp only [sizeAttr, jsonSizeTMembers]
      split <;> omega
    refine ⟨hkey, ?_⟩
    have hi := h1 "items"
    have hva := h1 "values"
    by_cases hk : k = "fields"
    · subst hk
      have e1 : sizeAttr "items" (("fields", v) :: m) = sizeAttr "items" m := by simp [sizeAttr]
      have e2 : sizeAttr "values" (("fields", v) :: m) = sizeAttr "values" m := by simp [sizeAttr]
      rw [e1, e2]
      cases v with
      | arr fields =>
        have := hvl fields rfl
        simp only [sizeFieldsAttr, if_true, jsonSizeTMembers, jsonSizeT]; omega
      | null => simp only [sizeFieldsAttr, if_true, jsonSizeTMembers, jsonSizeT]; omega
      | bool b => simp only [sizeFieldsAttr, if_true, jsonSizeTMembers, jsonSizeT]; omega
      | nat n => simp only [sizeFieldsAttr, if_true, jsonSizeTMembers, jsonSizeT]; omega
      | numOther => simp only [sizeFieldsAttr, if_true, jsonSizeTMembers, jsonSizeT]; omega
      | str s => simp only [sizeFieldsAttr, if_true, jsonSizeTMembers, jsonSizeT]; omega
      | obj o => simp only [sizeFieldsAttr, if_true, jsonSizeTMembers, jsonSizeT]; omega
    · have e3 : sizeFieldsAttr ((k, v) :: m) = sizeFieldsAttr m := by
        cases v <;> simp [sizeFieldsAttr, hk]
      rw [e3]
      by_cases hki : k = "items"
      · subst hki
        have e1 : sizeAttr "items" (("items", v) :: m) = schemaSize v := by simp [sizeAttr]
        have e2 : sizeAttr "values" (("items", v) :: m) = sizeAttr "values" m := by simp [sizeAttr]
        rw [e1, e2]; simp only [jsonSizeTMembers]; omega
      · by_cases hkv : k = "values"
        · subst hkv
          have e1 : sizeAttr "items" (("values", v) :: m) = sizeAttr "items" m := by simp [sizeAttr]
          have e2 : sizeAttr "values" (("values", v) :: m) = schemaSize v := by simp [sizeAttr]
          rw [e1, e2]; simp only [jsonSizeTMembers]; omega
        · have e1 : sizeAttr "items" ((k, v) :: m) = sizeAttr "items" m := by simp [sizeAttr, hki]
          have e2 : sizeAttr "values" ((k, v) :: m) = sizeAttr "values" m := by simp [sizeAttr, hkv]
          rw [e1, e2]; simp only [jsonSizeTMembers]; omega

/-- The registration fuel hypothesis `schemaSize j ≤ n` of `C07_valid_parses*` holds of the `n`
    the driver passes, whatever the document. -/
theorem schemaSize_le_driver_fuel (j : Json) : schemaSize j ≤ driverFuel j := by
  have := (schemaSize_le_jsonSizeT_aux.1 j).1
  unfold driverFuel; omega

/-- `C07_valid_parses` as the driver runs the parser: no fuel hypothesis left. -/
theorem valid_parses_at_driver_fuel (j : Json) (hv : ValidDoc j = true)
    (hd : jsonNesting j ≤ 127) (hc : NoUnconditionalCycle j) :
    ∃ S, parseJson j (driverFuel j) = .ok S :=
  C07_valid_parses j (driverFuel j) hv hd (schemaSize_le_driver_fuel j) hc

/-- ... but the fuel range of the conclusion about the canonical form, instantiated at the
    driver's `n`, does not contain the fuel `graphFuel S` the driver gives `canonicalForm`: a
    valid document padded with metadata (`jsonSize` large, graph small). -/
def docPadded : Json :=
  .obj [("type", .str "int"), ("doc", .arr (List.replicate 30 .null))]

theorem padded_fuel_gap :
    ValidDoc docPadded = true ∧ parseJson docPadded (driverFuel docPadded) = .ok #[⟨.int, none⟩] ∧
    graphFuelD #[⟨.int, none⟩] = 82 ∧ driverFuel docPadded + 2 = 142 := by
  refine ⟨by decide +kernel, by decide +kernel, by decide +kernel, by decide +kernel⟩

/-- The gap is closed by the corollary at the driver's fuel: parser at the driver's `n`, canonical
    form at the driver's `graphFuel`, no fuel hypothesis left, for EVERY valid document … -/
theorem valid_parses_at_driver_fuels (j : Json) (hv : ValidDoc j = true)
    (hd : jsonNesting j ≤ 127) (hc : NoUnconditionalCycle j) :
    ∃ S text, parseJson j (driverFuel j) = .ok S ∧ parsingCanonicalForm j = some text ∧
      canonicalForm S (graphFuelD S) = .ok text :=
  C07_valid_parses_and_resolves_at_graphFuel j (driverFuel j) hv hd (schemaSize_le_driver_fuel j) hc

/-- … in particular for the padded document (82 is outside the range `142 ≤ fuel`). -/
theorem padded_at_graphFuel :
    parseJson docPadded (driverFuel docPadded) = .ok #[⟨.int, none⟩] ∧
    parsingCanonicalForm docPadded = some "\"int\"" ∧
    canonicalForm #[⟨.int, none⟩] (graphFuelD #[⟨.int, none⟩]) = .ok "\"int\"" := by
  obtain ⟨S, text, h1, h2, h3⟩ :=
    C07_valid_parses_checked_at_graphFuel docPadded (driverFuel docPadded) (by decide +kernel)
      (by decide +kernel) (schemaSize_le_driver_fuel docPadded) (by decide +kernel)
  have hS : S = #[⟨.int, none⟩] := by
    have := padded_fuel_gap.2.1; rw [h1] at this; cases this; rfl
  subst hS
  have ht : text = "\"int\"" := by
    have : parsingCanonicalForm docPadded = some "\"int\"" := by decide +kernel
    rw [h2] at this; exact Option.some.inj this
  subst ht
  exact ⟨h1, h2, h3⟩

/-- (Before that corollary the gap could only be closed by instantiating at the least `n`
    (`schemaSize j`) — which speaks of the
    same graph only because `parseJson` happens to return the same graph for both fuels (checked
    here by evaluation; no registered theorem states that the result of `parseJson j n` does not
    depend on `n` once `schemaSize j ≤ n`).) -/
example : ∃ S text, parseJson docPadded 2 = .ok S ∧ parsingCanonicalForm docPadded = some text ∧
    ∀ fuel, 4 ≤ fuel → canonicalForm S fuel = .ok text :=
  C07_valid_parses_checked docPadded 2 (by decide +kernel) (by decide +kernel) (by decide +kernel)
    (by decide +kernel)

example : parseJson docPadded 2 = parseJson docPadded (driverFuel docPadded) := by decide +kernel

/-! ## B. a document with everything in it -/

/-- Record `org.ex.Tree`, recursive through an array (reference `Tree`, relative to the enclosing
    namespace) and through a union (reference by fullname); enum `Kind` (namespace inherited);
    fixed with a dotted name (the `namespace` attribute is ignored) and a `decimal` logical type;
    later references `Kind` (relative) and `money.Amount`; `doc`, `default` metadata. -/
def docTree : Json :=
  .obj [("type", .str "record"), ("name", .str "Tree"), ("namespace", .str "org.ex"),
    ("doc", .str "a tree"),
    ("fields", .arr [
      .obj [("name", .str "kind"), ("type",
        .obj [("type", .str "enum"), ("name", .str "Kind"),
          ("symbols", .arr [.str "LEAF", .str "NODE"])])],
      .obj [("name", .str "amount"), ("type",
        .obj [("type", .str "fixed"), ("name", .str "money.Amount"), ("namespace", .str "ignored"),
          ("size", .nat 12), ("logicalType", .str "decimal"), ("precision", .nat 20),
          ("scale", .nat 2)])],
      .obj [("name", .str "children"), ("type",
        .obj [("type", .str "array"), ("items", .str "Tree")])],
      .obj [("name", .str "parent"), ("type", .arr [.str "null", .str "org.ex.Tree"]),
        ("default", .null)],
      .obj [("name", .str "kind2"), ("type", .str "Kind")],
      .obj [("name", .str "amount2"), ("type", .str "money.Amount")]])]

def treeGraph : SchemaMut :=
  #[⟨.record ⟨"org.ex.Tree", "Tree", some "org.ex"⟩
      [("kind", 1), ("amount", 2), ("children", 3), ("parent", 4), ("kind2", 1), ("amount2", 2)],
      none⟩,
    ⟨.enum ⟨"org.ex.Kind", "Kind", some "org.ex"⟩ ["LEAF", "NODE"], none⟩,
    ⟨.fixed ⟨"money.Amount", "Amount", some "money"⟩ 12, some (.decimal 2 20)⟩,
    ⟨.array 0, none⟩,
    ⟨.union [5, 0], none⟩,
    ⟨.null, none⟩]

def treeText : String :=
  "{\"name\":\"org.ex.Tree\",\"type\":\"record\",\"fields\":[{\"name\":\"kind\",\"type\":{\"name\":\"org.ex.Kind\",\"type\":\"enum\",\"symbols\":[\"LEAF\",\"NODE\"]}},{\"name\":\"amount\",\"type\":{\"name\":\"money.Amount\",\"type\":\"fixed\",\"size\":12}},{\"name\":\"children\",\"type\":{\"type\":\"array\",\"items\":\"org.ex.Tree\"}},{\"name\":\"parent\",\"type\":[\"null\",\"org.ex.Tree\"]},{\"name\":\"kind2\",\"type\":\"org.ex.Kind\"},{\"name\":\"amount2\",\"type\":\"money.Amount\"}]}"

/-- every hypothesis of `C07_valid_parses`, evaluated -/
theorem docTree_hyps :
    ValidDoc docTree = true ∧ jsonNesting docTree = 5 ∧ schemaSize docTree = 27 ∧
    driverFuel docTree = 172 ∧ noUnconditionalCycleB docTree = true ∧
    definedNames docTree = [(some "org.ex", "Tree"), (some "org.ex", "Kind"), (some "money", "Amount")] := by
  refine ⟨by decide +kernel, by decide +kernel, by decide +kernel, by decide +kernel,
    by decide +kernel, by decide +kernel⟩

/-- a ranking given by hand (`Tree` directly contains the enum and the fixed only) -/
theorem docTree_acyclic : NoUnconditionalCycle docTree :=
  ⟨fun fn => if fn.2 = "Tree" then 1 else 0, by decide +kernel⟩

/-- `C07_valid_parses`, at the driver's fuel -/
example : ∃ S, parseJson docTree (driverFuel docTree) = .ok S :=
  C07_valid_parses docTree (driverFuel docTree) (by decide +kernel) (by decide +kernel)
    (schemaSize_le_driver_fuel docTree) docTree_acyclic

/-- `C07_valid_parses_and_resolves`, at the driver's fuel -/
example : ∃ S text, parseJson docTree (driverFuel docTree) = .ok S ∧
    parsingCanonicalForm docTree = some text ∧
    ∀ fuel, driverFuel docTree + 2 ≤ fuel → canonicalForm S fuel = .ok text :=
  C07_valid_parses_and_resolves docTree (driverFuel docTree) (by decide +kernel) (by decide +kernel)
    (schemaSize_le_driver_fuel docTree) docTree_acyclic

/-- what the witnesses are -/
theorem docTree_parse : parseJson docTree (driverFuel docTree) = .ok treeGraph := by
  decide +kernel

theorem docTree_spec_text : parsingCanonicalForm docTree = some treeText := by decide +kernel

/-- here the driver's `graphFuel` is inside the fuel range of the theorem (`174 ≤ 576`) -/
example : graphFuelD treeGraph = 576 ∧ driverFuel docTree + 2 = 174 := by
  refine ⟨by decide +kernel, by decide +kernel⟩

/-- `C08_pcf_is_spec_at_graphFuel` / `C08_pcf_is_spec_text_at_graphFuel`: no look at the numbers
    needed -/
example : ∃ c, canon none docTree = some c ∧
    canonicalForm treeGraph (graphFuelD treeGraph) = .ok (print c) :=
  C08_pcf_is_spec_at_graphFuel docTree (driverFuel docTree) treeGraph docTree_parse (by decide +kernel)

example : ∃ text, parsingCanonicalForm docTree = some text ∧
    canonicalForm treeGraph (graphFuelD treeGraph) = .ok text :=
  C08_pcf_is_spec_text_at_graphFuel docTree (driverFuel docTree) treeGraph docTree_parse
    (by decide +kernel)

/-- `C08_pcf_is_spec`: hypotheses "the parser accepts" and "no forward reference" -/
example : ∃ c, canon none docTree = some c ∧
    ∀ fuel, driverFuel docTree + 2 ≤ fuel → canonicalForm treeGraph fuel = .ok (print c) :=
  C08_pcf_is_spec docTree (driverFuel docTree) treeGraph docTree_parse (by decide +kernel)

/-- `C08_pcf_is_spec_text`, used: the crate's text at the driver's fuel is the text shown -/
theorem docTree_crate_text : canonicalForm treeGraph (graphFuelD treeGraph) = .ok treeText := by
  obtain ⟨text, h1, h2⟩ :=
    C08_pcf_is_spec_text docTree (driverFuel docTree) treeGraph docTree_parse (by decide +kernel)
  rw [docTree_spec_text] at h1
  cases h1
  exact h2 _ (by decide +kernel)

/-- (and by evaluation, independently of the theorem) -/
example : canonicalForm treeGraph (graphFuelD treeGraph) = .ok treeText := by decide +kernel

/-- the names: `C07_defKey_is_spec`, `C07_refKey_is_spec`, `C07_ref_matches_def` on the spellings
    of the document -/
example : defKey "money.Amount" (some "ignored") (some "org.ex") = ⟨some "money", "Amount"⟩ ∧
    Spec.fullnameOfDef "money.Amount" (some "ignored") (some "org.ex") = (some "money", "Amount") ∧
    refKey "Tree" (some "org.ex") = ⟨some "org.ex", "Tree"⟩ ∧
    Spec.fullnameOfRef "Tree" (some "org.ex") = (some "org.ex", "Tree") := by
  refine ⟨by decide +kernel, by decide +kernel, by decide +kernel, by decide +kernel⟩

example := C07_defKey_is_spec "money.Amount" (some "ignored") (some "org.ex")
example := C07_refKey_is_spec "Tree" (some "org.ex")

example : refKey ("org.ex" ++ "." ++ "Tree") none = ⟨some "org.ex", "Tree"⟩ ∧
    refKey "Tree" (some "org.ex") = ⟨some "org.ex", "Tree"⟩ ∧
    defKey "Tree" (some "org.ex") none = ⟨some "org.ex", "Tree"⟩ :=
  have h := C07_ref_matches_def "org.ex" "Tree" (by decide) (by decide)
  ⟨(h none none).1, (h (some "org.ex") none).2.2.1, (h none none).2.2.2.2.2.1⟩

/-! ## C. abstract registration states = states the parser reaches -/

/-- `record n.R { a : E (forward reference), b : enum E, c : n.E (backward reference), d : long }` -/
def docOrder : Json :=
  .obj [("type", .str "record"), ("name", .str "R"), ("namespace", .str "n"),
    ("fields", .arr [
      .obj [("name", .str "a"), ("type", .str "E")],
      .obj [("name", .str "b"), ("type",
        .obj [("type", .str "enum"), ("name", .str "E"), ("symbols", .arr [.str "A"])])],
      .obj [("name", .str "c"), ("type", .str "n.E")],
      .obj [("name", .str "d"), ("type", .str "long")]])]

def attrsR : RawAttrs :=
  { type := .record, logicalType := none, name := some "R", nsAttr := some "n", symbols := none,
    size := none, precision := none, scale := none }

def attrsE : RawAttrs :=
  { type := .enum, logicalType := none, name := some "E", nsAttr := none, symbols := some ["A"],
    size := none, precision := none, scale := none }

def rawE : RawSchema := .object attrsE none none none

def fieldsR : List (String × RawSchema) :=
  [("a", .ref "E"), ("b", rawE), ("c", .ref "n.E"), ("d", .type .long)]

def rawOrder : RawSchema := .object attrsR (some fieldsR) none none

/-- the reader, on the document -/
theorem docOrder_raw : ∃ r, rawOfJson (rawGas docOrder) docOrder = .ok r := by
  cases h : rawOfJson (rawGas docOrder) docOrder with
  | ok r => exact ⟨r, rfl⟩
  | error e =>
    have : (match rawOfJson (rawGas docOrder) docOrder with | .ok _ => true | .error _ => false)
        = true := by decide +kernel
    rw [h] at this; cases this

/-- the states of the registration of `rawOrder`, in order:
    `stA` slot 0 reserved and `n.R` bound (inside `registerObject`, before the fields);
    `st1` after field `a` (a pending reference); `st2` after field `b` (the enum);
    field `c` finds the binding and leaves `st2` unchanged; `st3` after field `d`;
    `stF` the final state: slot 0 overwritten with the record. -/
def stA : PState := { nodes := #[⟨.null, none⟩], names := [(⟨some "n", "R"⟩, 0)] }

def st1 : PState := { stA with unresolved := [⟨some "n", "E"⟩] }

def st2 : PState :=
  { nodes := #[⟨.null, none⟩, ⟨.enum ⟨"n.E", "E", some "n"⟩ ["A"], none⟩]
    names := [(⟨some "n", "E"⟩, 1), (⟨some "n", "R"⟩, 0)]
    unresolved := [⟨some "n", "E"⟩] }

def st3 : PState := { st2 with nodes := st2.nodes.push ⟨.long, none⟩ }

def recordR : PNode :=
  ⟨.record ⟨"n.R", "R", some "n"⟩ [("a", .pending 0), ("b", .idx 1), ("c", .idx 1), ("d", .idx 2)],
    none⟩

def stF : PState := { st3 with nodes := st3.nodes.set! 0 recordR }

/-- these ARE the states of the real functions (fuel as `parseJson` would pass it down from 32) -/
theorem states_are_real :
    registerNode 32 rawOrder none {} = .ok (.idx 0, stF) ∧
    registerObject 31 .record (some attrsR) (some fieldsR) none none none {} = .ok (.idx 0, stF) ∧
    nameStep (some attrsR) none {} = .ok (some ⟨some "n", "R"⟩, stA) ∧
    registerFields 30 fieldsR (some "n") stA =
      .ok ([("a", .pending 0), ("b", .idx 1), ("c", .idx 1), ("d", .idx 2)], st3) ∧
    registerNode 29 (.ref "E") (some "n") stA = .ok (.pending 0, st1) ∧
    registerNode 28 rawE (some "n") st1 = .ok (.idx 1, st2) ∧
    registerObject 27 .enum (some attrsE) none none none (some "n") st1 = .ok (.idx 1, st2) ∧
    registerNode 27 (.ref "n.E") (some "n") st2 = .ok (.idx 1, st2) ∧
    registerNode 26 (.type .long) (some "n") st2 = .ok (.idx 2, st3) := by
  refine ⟨by decide +kernel, by decide +kernel, by decide +kernel, by decide +kernel,
    by decide +kernel, by decide +kernel, by decide +kernel, by decide +kernel, by decide +kernel⟩

/-- `C07_register_extends` on real states -/
theorem le_0_F : PState.Le {} stF := C07_register_extends 32 rawOrder none {} _ _ states_are_real.1
theorem le_1_2 : st1.Le st2 :=
  C07_register_extends 28 rawE (some "n") st1 _ _ states_are_real.2.2.2.2.2.1
theorem le_2_3 : st2.Le st3 :=
  C07_register_extends 26 (.type .long) (some "n") st2 _ _ states_are_real.2.2.2.2.2.2.2.2
theorem le_1_3 : st1.Le st3 := le_1_2.trans le_2_3

/-- `C07_def_binds`: the enum binds `n.E` to its own slot -/
example : st2.names.lookup (defKey "E" attrsE.nsAttr (some "n")) = some st1.nodes.size :=
  C07_def_binds 26 .enum attrsE "E" rfl none none none (some "n") st1 (.idx 1) st2
    states_are_real.2.2.2.2.2.2.1

example : defKey "E" attrsE.nsAttr (some "n") = ⟨some "n", "E"⟩ ∧ st1.nodes.size = 1 := by
  refine ⟨by decide +kernel, by decide +kernel⟩

/-- The relations that reach the FINAL state `stF` of the real run (slot 0, the record's own
    placeholder, is overwritten at the end: `registerObject_inner` on the real call). -/
theorem body_real :
    bodyStep 30 .record (some attrsR) (some fieldsR) none none none (some ⟨some "n", "R"⟩) stA =
      .ok (recordR.type, st3) := by decide +kernel

theorem leX_3_F : st3.LeExcept [0] stF := by
  obtain ⟨nk, s1, ty, s2, hn, hb, hin⟩ := registerObject_inner states_are_real.2.1
  rw [states_are_real.2.2.1] at hn
  cases hn
  rw [body_real] at hb
  cases hb
  exact hin [] st3 (PState.Le.refl _).toLeExcept
theorem leX_1_F : st1.LeExcept [0] stF := by
  have := le_1_3.toLeExcept.trans leX_3_F
  simpa using this
theorem leX_2_F : st2.LeExcept [0] stF := by
  have := le_2_3.toLeExcept.trans leX_3_F
  simpa using this
theorem leNU_1_F : st1.LeNU stF := leX_1_F.toLeNU
theorem leNU_2_F : st2.LeNU stF := leX_2_F.toLeNU

/-- `C07_order_independent_ref`, forward reference `a : E`, up to the REAL FINAL state `stF` of
    the registration (the state `resolveKeys` works on) -/
example : resolveKey stF (.pending 0) = 1 :=
  C07_order_independent_ref 28 "E" (some "n") stA st1 stF (.pending 0) 1
    states_are_real.2.2.2.2.1 leNU_1_F (by decide +kernel)

/-- … and to the last state before the enclosing record is completed -/
example : resolveKey st3 (.pending 0) = 1 :=
  C07_order_independent_ref 28 "E" (some "n") stA st1 st3 (.pending 0) 1
    states_are_real.2.2.2.2.1 le_1_3.toLeNU (by decide +kernel)

/-- `C07_forward_ref_eq_late_lookup`, final state -/
example : resolveKey stF (.pending 0) = 1 ∧
    registerNode 29 (.ref "E") (some "n") stF = .ok (.idx 1, stF) :=
  C07_forward_ref_eq_late_lookup 28 "E" (some "n") stA st1 stF 0 1
    states_are_real.2.2.2.2.1 leNU_1_F (by decide +kernel)

/-- `C07_order_independent_ref` and `C07_backward_ref_stable`, backward reference `c : n.E`,
    final state -/
example : resolveKey stF (.idx 1) = 1 :=
  C07_order_independent_ref 26 "n.E" (some "n") st2 st2 stF (.idx 1) 1
    states_are_real.2.2.2.2.2.2.2.1 leNU_2_F (by decide +kernel)

example : stF.names.lookup (refKey "n.E" (some "n")) = some 1 :=
  C07_backward_ref_stable 26 "n.E" (some "n") st2 st2 stF 1 states_are_real.2.2.2.2.2.2.2.1
    leNU_2_F

/-- `C07_node_stable`: the enum written in `st2` (slot 1) is still there in the FINAL state; slot
    0, the enclosing record's placeholder, is the exception -/
example : stF.nodes[1]? = some ⟨.enum ⟨"n.E", "E", some "n"⟩ ["A"], none⟩ :=
  C07_node_stable [0] st2 stF leX_2_F 1 _ (by decide) (by decide +kernel)

/-- `C07_node_stable_le` between two states related by a complete call -/
example : st3.nodes[1]? = some ⟨.enum ⟨"n.E", "E", some "n"⟩ ["A"], none⟩ :=
  C07_node_stable_le st2 st3 le_2_3 1 _ (by decide +kernel)

/-- `C07_node_survives_enclosing` on the real call of the enclosing record -/
example : stF.nodes[1]? = some ⟨.enum ⟨"n.E", "E", some "n"⟩ ["A"], none⟩ :=
  C07_node_survives_enclosing states_are_real.2.1 st2 1 _ (by decide) (by decide +kernel)
    (fun nk s1 ty s2 hn hb => by
      rw [states_are_real.2.2.1] at hn
      cases hn
      rw [body_real] at hb
      cases hb
      exact le_2_3)

/-- WHY the hypothesis of these four theorems is `LeNU` / `LeExcept` and no longer `Le`: with
    `stF` the FINAL state of the registration — the state `resolveKeys` works on — `st1.Le stF` is
    false: slot 0 is the placeholder `null` in `st1`, `st2`, `st3` and the record in `stF`.  This
    is so for every reference and every nested node of every document: a reference always stands
    inside a record / array / map / union whose slot is reserved before its children are
    registered and overwritten afterwards. -/
theorem le_to_final_state_fails : ¬ st1.Le stF := by
  intro h
  have := h.nodes 0 (by decide)
  exact absurd this (by decide +kernel)

theorem node_stable_hyp_fails_for_final_state : ¬ st2.Le stF ∧ ¬ st3.Le stF := by
  refine ⟨fun h => ?_, fun h => ?_⟩
  · exact absurd (h.nodes 0 (by decide)) (by decide +kernel)
  · exact absurd (h.nodes 0 (by decide)) (by decide +kernel)

/-- `C07_resolveKeys_ok_iff`, `C07_resolveKeys_eq` on the real final state -/
example : ∃ S, resolveKeys stF = .ok S :=
  (C07_resolveKeys_ok_iff stF).mpr (by decide +kernel)

def orderGraph : SchemaMut :=
  #[⟨.record ⟨"n.R", "R", some "n"⟩ [("a", 1), ("b", 1), ("c", 1), ("d", 2)], none⟩,
    ⟨.enum ⟨"n.E", "E", some "n"⟩ ["A"], none⟩, ⟨.long, none⟩]

theorem resolve_F : resolveKeys stF = .ok orderGraph := by decide +kernel

example : orderGraph = stF.nodes.map fun n =>
    { logical := n.logical, type := resolveType (resolveKey stF) n.type } :=
  C07_resolveKeys_eq stF orderGraph resolve_F

example : ∀ k ∈ stF.unresolved, (stF.names.lookup k).isSome :=
  (C07_resolveKeys_ok_iff stF).mp ⟨orderGraph, resolve_F⟩

/-- the document with the forward reference is accepted, outside `ValidDoc` -/
example : parseJson docOrder 32 = .ok orderGraph ∧ ValidDoc docOrder = false ∧
    noForwardRefs docOrder = false := by
  refine ⟨by decide +kernel, by decide +kernel, by decide +kernel⟩

/-- `C07_preserves_record` on the real call -/
example : ∃ name fs lt sa sb,
    attrsR.name = some name ∧ PKey.idx 0 = .idx ({} : PState).nodes.size ∧
    logicalOf attrsR = .ok lt ∧
    registerFields 30 fieldsR (defKey name attrsR.nsAttr none).ns sa = .ok (fs, sb) ∧
    fs.map (·.1) = fieldsR.map (·.1) ∧
    stF.nodes[({} : PState).nodes.size]? =
      some { type := .record (defKey name attrsR.nsAttr none).toName fs, logical := lt } :=
  C07_preserves_record 30 attrsR fieldsR none none none {} (.idx 0) stF states_are_real.2.1

/-- `C07_rejects_unknown_ref` on a real state: the same record without field `b` -/
def stUnknown : PState :=
  { nodes := #[⟨.record ⟨"n.R", "R", some "n"⟩ [("a", .pending 0)], none⟩]
    names := [(⟨some "n", "R"⟩, 0)]
    unresolved := [⟨some "n", "E"⟩] }

theorem unknown_real :
    registerNode 32 (.object attrsR (some [("a", .ref "E")]) none none) none {} =
      .ok (.idx 0, stUnknown) := by decide +kernel

example : resolveKeys stUnknown = .error .custom :=
  C07_rejects_unknown_ref stUnknown ⟨some "n", "E"⟩ (by decide +kernel) (by decide +kernel)

example : ¬ ∃ S, resolveKeys stUnknown = .ok S := fun h =>
  absurd ((C07_resolveKeys_ok_iff stUnknown).mp h ⟨some "n", "E"⟩ (by decide +kernel))
    (by decide +kernel)

/-- `C07_rejects_duplicate` on a real state: a second definition of `n.E` met in `st2` -/
example : registerObject 27 .enum (some attrsE) none none none (some "n") st2 = .error .custom :=
  C07_rejects_duplicate 26 .enum attrsE "E" rfl none none none (some "n") st2 (by decide +kernel)

/-! ## D. the cycle check -/

/-- the graph the parser builds for `record R { f : R }` (`docSelfRecord`) before the cycle check -/
def selfGraph : SchemaMut := #[⟨.record ⟨"R", "R", none⟩ [("f", 0)], none⟩]

def attrsSelf : RawAttrs :=
  { type := .record, logicalType := none, name := some "R", nsAttr := none, symbols := none,
    size := none, precision := none, scale := none }

def stSelf : PState :=
  { nodes := #[⟨.record ⟨"R", "R", none⟩ [("f", .idx 0)], none⟩], names := [(⟨none, "R"⟩, 0)] }

theorem selfGraph_real :
    registerNode 32 (.object attrsSelf (some [("f", .ref "R")]) none none) none {} =
      .ok (.idx 0, stSelf) ∧
    resolveKeys stSelf = .ok selfGraph ∧
    parseJson docSelfRecord 32 = .error .cycle := by
  refine ⟨by decide +kernel, by decide +kernel, by decide +kernel⟩

theorem selfGraph_cycle : ∃ i, Relation.TransGen (recEdge selfGraph) i i :=
  ⟨0, .single ⟨by decide +kernel, by decide +kernel, by decide +kernel⟩⟩

/-- `C07_cycle_check_iff`, first equivalence, right to left: the cycle is reported -/
example : checkForCycles selfGraph = .error .cycle :=
  (C07_cycle_check_iff selfGraph).1.mpr selfGraph_cycle

/-- ... left to right, from the evaluated outcome -/
example : ∃ i, Relation.TransGen (recEdge selfGraph) i i :=
  (C07_cycle_check_iff selfGraph).1.mp (by decide +kernel)

/-- second equivalence on the graph of `docTree` (the record contains itself only through an
    array and a union): accepted, hence no record cycle (`C07_cycle_check_sound`) -/
theorem treeGraph_acyclic : ¬ ∃ i, Relation.TransGen (recEdge treeGraph) i i :=
  (C07_cycle_check_iff treeGraph).2.mp (by decide +kernel)

example : ¬ ∃ i, Relation.TransGen (recEdge treeGraph) i i :=
  C07_cycle_check_sound treeGraph (by decide +kernel)

/-- ... and back: from acyclicity (as a hypothesis) to `ok` -/
example : checkForCycles treeGraph = .ok () :=
  (C07_cycle_check_iff treeGraph).2.mpr treeGraph_acyclic

/-- the fuel chosen inside `checkForCycles`: `(S.size + 2) * (maxWidth S + 2)` per root -/
example : (treeGraph.size + 2) * (maxWidth treeGraph + 2) = 64 ∧
    (selfGraph.size + 2) * (maxWidth selfGraph + 2) = 9 := by
  refine ⟨by decide +kernel, by decide +kernel⟩

/-- a two-record cycle with an acyclic tail, indices not in document order -/
def twoCycle : SchemaMut :=
  #[⟨.record ⟨"A", "A", none⟩ [("x", 2), ("b", 1)], none⟩,
    ⟨.record ⟨"B", "B", none⟩ [("u", 3), ("a", 0)], none⟩,
    ⟨.int, none⟩,
    ⟨.union [2, 0], none⟩]

example : checkForCycles twoCycle = .error .cycle :=
  (C07_cycle_check_iff twoCycle).1.mpr
    ⟨0, .tail (b := 1) (.single ⟨by decide +kernel, by decide +kernel, by decide +kernel⟩)
      ⟨by decide +kernel, by decide +kernel, by decide +kernel⟩⟩

/-! ## E. CRC-64-AVRO -/

/-- `"int"` (with its quotes), as bytes -/
def intText : Bytes := [34, 105, 110, 116, 34]

example : intText = "\"int\"".toUTF8.data.toList := by decide +kernel

/-- The specification's bit-serial CRC gives the published fingerprint of the schema `"int"`
    (Avro's `schema-tests.txt`: 8247732601305521295): `Spec.crc64` is the real thing. -/
theorem crc_int_spec : Spec.crc64 intText = BitVec.ofInt 64 8247732601305521295 := by
  decide +kernel

/-- `C08_fold` on a non-empty byte string: the table-driven checksum has that value too -/
theorem crc_int_impl : rabinHash intText = BitVec.ofInt 64 8247732601305521295 := by
  rw [C08_fold]; exact crc_int_spec

/-- (independently of the theorem, by evaluating the table lookups) -/
example : rabinHash intText = BitVec.ofInt 64 8247732601305521295 := by decide +kernel

/-- `C08_fingerprint_bytes`: little endian -/
example : rabinFingerprint intText = [0x8f, 0x5c, 0x39, 0x3f, 0x1a, 0xd5, 0x75, 0x72] := by
  rw [C08_fingerprint_bytes]; decide +kernel

/-- the two definitions differ: one table lookup and a shift by 8 against eight conditional
    shift-xor rounds (no table on the specification side) -/
example (s : BitVec 64) (b : UInt8) :
    rabinStep s b =
      (s >>> 8) ^^^ Generated.rabinTable[((s ^^^ BitVec.ofNat 64 b.toNat) &&& 0xFF#64).toNat]! ∧
    Spec.crcStep s b = Spec.round (Spec.round (Spec.round (Spec.round (Spec.round (Spec.round
      (Spec.round (Spec.round (s ^^^ BitVec.ofNat 64 b.toNat)))))))) := ⟨rfl, rfl⟩

/-- The crate's own test vector (`tests/round_trips.rs`,
    `complex_schema_parsing_serialization_round_trip`): a union of a fixed and a record with
    nested records, `"namespace": ""`, a leading-dot reference; the crate asserts the fingerprint
    `[18, 207, 199, 195, 150, 81, 210, 28]`. -/
def docRepo : Json :=
  .arr [
    .obj [("type", .str "fixed"), ("name", .str "fiiixed"), ("size", .nat 12)],
    .obj [("type", .str "record"), ("name", .str "Test"), ("fields", .arr [
      .obj [("name", .str "f"), ("type",
        .obj [("type", .str "record"), ("name", .str "a.Test2"), ("fields", .arr [
          .obj [("name", .str "Test2 inner"), ("type",
            .obj [("type", .str "fixed"), ("size", .nat 12), ("name", .str "test2_inner")])],
          .obj [("name", .str "the_fiixed"), ("type", .str ".fiiixed")]])])],
      .obj [("name", .str "f2"), ("type", .str "a.Test2")],
      .obj [("name", .str "f3"), ("type",
        .obj [("type", .str "record"), ("name", .str "f3"), ("namespace", .str ""),
          ("fields", .arr [
            .obj [("name", .str "f3fiiixed"), ("type", .str "fiiixed")],
            .obj [("name", .str "f3_2"), ("type", .str "a.test2_inner")]])])],
      .obj [("name", .str "f4"), ("type", .str "a.test2_inner")]])]]

def repoText : String :=
  "[{\"name\":\"fiiixed\",\"type\":\"fixed\",\"size\":12},{\"name\":\"Test\",\"type\":\"record\",\"fields\":[{\"name\":\"f\",\"type\":{\"name\":\"a.Test2\",\"type\":\"record\",\"fields\":[{\"name\":\"Test2 inner\",\"type\":{\"name\":\"a.test2_inner\",\"type\":\"fixed\",\"size\":12}},{\"name\":\"the_fiixed\",\"type\":\"fiiixed\"}]}},{\"name\":\"f2\",\"type\":\"a.Test2\"},{\"name\":\"f3\",\"type\":{\"name\":\"f3\",\"type\":\"record\",\"fields\":[{\"name\":\"f3fiiixed\",\"type\":\"fiiixed\"},{\"name\":\"f3_2\",\"type\":\"a.test2_inner\"}]}},{\"name\":\"f4\",\"type\":\"a.test2_inner\"}]}]"

theorem docRepo_spec_text : parsingCanonicalForm docRepo = some repoText := by decide +kernel

/-- `C07_valid_parses_checked` + `C18_fingerprint_is_crc`: the document is accepted at the
    driver's fuel, its canonical form is the specification's, and the fingerprint stored for it
    — at the driver's `graphFuel` — is the one the crate's test asserts. -/
theorem docRepo_fingerprint : ∃ S, parseJson docRepo (driverFuel docRepo) = .ok S ∧
    canonicalForm S (graphFuelD S + driverFuel docRepo) = .ok repoText ∧
    schemaFingerprint S (graphFuelD S + driverFuel docRepo) =
      .ok [18, 207, 199, 195, 150, 81, 210, 28] := by
  obtain ⟨S, text, hS, ht, hc⟩ :=
    C07_valid_parses_checked docRepo (driverFuel docRepo) (by decide +kernel) (by decide +kernel)
      (schemaSize_le_driver_fuel docRepo) (by decide +kernel)
  rw [docRepo_spec_text] at ht
  cases ht
  have hcf := hc (graphFuelD S + driverFuel docRepo) (by unfold graphFuelD graphFuel; omega)
  refine ⟨S, hS, hcf, ?_⟩
  rw [C18_fingerprint_is_crc S _ repoText hcf]
  decide +kernel

/-- the same at the driver's `graphFuel` exactly (`C07_valid_parses_checked_at_graphFuel`) -/
theorem docRepo_fingerprint_at_graphFuel : ∃ S, parseJson docRepo (driverFuel docRepo) = .ok S ∧
    canonicalForm S (graphFuelD S) = .ok repoText ∧
    schemaFingerprint S (graphFuelD S) = .ok [18, 207, 199, 195, 150, 81, 210, 28] := by
  obtain ⟨S, text, hS, ht, hcf⟩ :=
    C07_valid_parses_checked_at_graphFuel docRepo (driverFuel docRepo) (by decide +kernel)
      (by decide +kernel) (schemaSize_le_driver_fuel docRepo) (by decide +kernel)
  rw [docRepo_spec_text] at ht
  cases ht
  refine ⟨S, hS, hcf, ?_⟩
  rw [C18_fingerprint_is_crc S _ repoText hcf]
  decide +kernel

/-! ## F. the canonical-form writer on the parsed graph -/

/-- `C08_pcf_logical_irrelevant`: `treeGraph` carries `decimal(20, 2)` on the fixed -/
example : canonicalForm (treeGraph.map fun n => { n with logical := none }) 576 = .ok treeText := by
  rw [C08_pcf_logical_irrelevant]; exact docTree_crate_text

/-- `C08_pcf_depends_on_types_only`: another annotation on another node -/
def treeGraph' : SchemaMut := (treeGraph.set! 2 ⟨.fixed ⟨"money.Amount", "Amount", some "money"⟩ 12, some .duration⟩).set! 5 ⟨.null, some (.unknown "x")⟩

example : canonicalForm treeGraph' 576 = .ok treeText := by
  rw [C08_pcf_depends_on_types_only treeGraph' treeGraph 576 (by decide +kernel)]
  exact docTree_crate_text

/-- `C08_pcf_named_once`: field `kind2`, met when `Tree` and `Kind` have been written -/
example : pcf treeGraph 10 1 { out := "x", written := [1, 0] } =
    .ok { out := "x" ++ "\"" ++ "org.ex.Kind" ++ "\"", written := [1, 0] } :=
  C08_pcf_named_once treeGraph 9 1 { out := "x", written := [1, 0] }
    ⟨.enum ⟨"org.ex.Kind", "Kind", some "org.ex"⟩ ["LEAF", "NODE"], none⟩
    ⟨"org.ex.Kind", "Kind", some "org.ex"⟩ (by decide +kernel) rfl (by decide +kernel)

/-- `C08_pcf_named_first_enum` / `_fixed` -/
example := C08_pcf_named_first_enum treeGraph 9 1 { out := "x", written := [0] } none
  ⟨"org.ex.Kind", "Kind", some "org.ex"⟩ ["LEAF", "NODE"] (by decide +kernel) (by decide +kernel)

example := C08_pcf_named_first_fixed treeGraph 9 2 { out := "x", written := [1, 0] }
  (some (.decimal 2 20)) ⟨"money.Amount", "Amount", some "money"⟩ 12 (by decide +kernel)
  (by decide +kernel)

/-- Remark (no hidden hypothesis on the alphabet in `C08_pcf_is_spec`; instead): neither the
    writer model (as the crate) nor `Spec.Pcf.print` escapes anything, so for a name or symbol
    containing `"` or `\` both sides are the same text — which is not JSON.  [STRINGS] of the
    specification is outside the statement (declared in the property's `partial` text). -/
def docQuote : Json :=
  .obj [("type", .str "enum"), ("name", .str "E"), ("symbols", .arr [.str "a\"b"])]

example : ValidDoc docQuote = true ∧
    parsingCanonicalForm docQuote = some "{\"name\":\"E\",\"type\":\"enum\",\"symbols\":[\"a\"b\"]}" ∧
    crateCanonicalText docQuote 10 20 = parsingCanonicalForm docQuote := by
  refine ⟨by decide +kernel, by decide +kernel, by decide +kernel⟩

/-! ## G. further registered theorems, instantiated; totalised definitions -/

/-- `C07_parse_ok` on the accepted document of B -/
example : ∃ raw k st,
    jsonNesting docTree ≤ 127 ∧ rawOfJson (rawGas docTree) docTree = .ok raw ∧
    registerNode (driverFuel docTree + 2) raw none {} = .ok (k, st) ∧
    (∀ key ∈ st.unresolved, (st.names.lookup key).isSome) ∧
    treeGraph = (st.nodes.map fun nd =>
      { logical := nd.logical, type := resolveType (resolveKey st) nd.type }) ∧
    ¬ ∃ i, Relation.TransGen (recEdge treeGraph) i i :=
  C07_parse_ok docTree (driverFuel docTree) treeGraph docTree_parse

/-- `C07_valid_registers`: nothing pending, the table is the list of the defined names -/
example : ∃ raw k st, rawOfJson (rawGas docTree) docTree = .ok raw ∧
    registerNode (driverFuel docTree + 2) raw none {} = .ok (k, st) ∧ st.unresolved = [] ∧
    st.names.map (·.1) = ((definedNames docTree).map keyOf).reverse :=
  C07_valid_registers docTree (driverFuel docTree) (by decide +kernel)
    (schemaSize_le_driver_fuel docTree)

/-- `C07_parses_names_distinct` (no `ValidDoc` hypothesis) on the document with a forward
    reference; `C07_parses_shape` on `docTree` -/
example : namesDistinct docOrder = true :=
  C07_parses_names_distinct docOrder 32 orderGraph (by decide +kernel)

example : shape docTree = true :=
  C07_parses_shape docTree (driverFuel docTree) treeGraph docTree_parse (by decide +kernel)

/-- `C07_rejects_self_record`, `C07_rejects_two_cycle`, `C07_rejects_cycle` -/
example : checkForCycles selfGraph = .error .cycle :=
  C07_rejects_self_record selfGraph 0 ⟨"R", "R", none⟩ [("f", 0)] none (by decide +kernel) "f"
    (by decide +kernel)

example : checkForCycles twoCycle = .error .cycle :=
  C07_rejects_two_cycle twoCycle 0 1 ⟨"A", "A", none⟩ ⟨"B", "B", none⟩ [("x", 2), ("b", 1)]
    [("u", 3), ("a", 0)] none none (by decide +kernel) (by decide +kernel) "b" "a"
    (by decide +kernel) (by decide +kernel)

/-- `C07_toName_ofFq`, `C07_defKey_wf`, `C07_refKey_wf` on the keys of `docTree` -/
example : Name.ofFq (NameKey.toName ⟨some "org.ex", "Tree"⟩).fq = NameKey.toName ⟨some "org.ex", "Tree"⟩ :=
  C07_toName_ofFq ⟨some "org.ex", "Tree"⟩ (by decide +kernel) (by decide +kernel)

example := C07_defKey_wf "money.Amount" (some "ignored") (some "org.ex") (by decide)
example := C07_refKey_wf "Tree" (some "org.ex") (by decide)

/-- `C07_logical_decimal` on the attributes of the fixed of `docTree` -/
def attrsAmount : RawAttrs :=
  { type := .fixed
    logicalType := some "decimal"
    name := some "money.Amount"
    nsAttr := some "ignored"
    symbols := none
    size := some 12
    precision := some 20
    scale := some 2 }

example : logicalOf attrsAmount = .ok (some (.decimal 2 20)) :=
  C07_logical_decimal attrsAmount 20 rfl rfl

/-- Totalised definitions.  `resolveKeys` / `resolveKey` send a pending slot that does not exist
    to node 0 (`getD 0`; the crate would index out of bounds): `C07_resolveKeys_eq` and
    `C07_resolveKeys_ok_iff` hold of such a state only thanks to that.  The states
    `registerNode` produces never contain such a slot (a `.pending j` is created together with
    the `j`-th entry of `unresolved`), so this does not affect what is said of the parser. -/
def stDangling : PState := { nodes := #[⟨.array (.pending 7), none⟩] }

example : resolveKeys stDangling = .ok #[⟨.array 0, none⟩] ∧
    (∀ k ∈ stDangling.unresolved, (stDangling.names.lookup k).isSome) := by
  refine ⟨by decide +kernel, by decide +kernel⟩

/-- `rabinTable[i]!` in `rabinStep`: the table has its 256 entries and the index is masked with
    `0xFF`, so the default of `[·]!` is never taken (`C08_table_all` would otherwise fail). -/
example : Generated.rabinTable.size = 256 := by decide +kernel

/-- `set!` in `registerNode` / `registerObject`: always the slot reserved at entry (in range),
    e.g. slot 0 of the final state above is the record, not a silently dropped write. -/
example : stF.nodes[0]? = some recordR := by decide +kernel

end Avro.Theorems.NonVacuityD
