import AvroModel.Lemmas.TypedAccepts
import AvroModel.Theorems.C03typed
/-
C03 — typed targets: WHEN a typed read SUCCEEDS (acceptance half, recursive fragment).

`C03_typed_value` (C03typed.lean) says what a successful typed read returns, for every request;
`C03_typed_accepts_shallow_partial` gave acceptance for a shallow fragment only.  Here: acceptance
for the natural recursive fragment `fits S k h node` (`Lemmas/TypedAccepts.lean`, decidable):

  * `any`, `ignored`          fit every node;
  * `i64`                     fits `int`, `date`, `time-millis`, `long`, `time-micros`,
                              `timestamp-millis`, `timestamp-micros`;
  * `f64` fits `double`; `str` fits `string`, `uuid`; `bytes` fits `bytes`, `fixed`;
  * `option h`                fits a union `[null, T]` / `[T, null]` when `h` fits `T`;
  * `seq h`                   fits `array T` when `h` fits `T`;
  * `map str h`, `map any h`  fit `map T` when `h` fits `T`;
  * `struct fs`               fits a record when every field of `fs` names a record field and every
                              record field is read with a request that fits its node — the request
                              listed for its name in `fs`, `ignored` if there is none.

RESULTS
  * `C03_typed_accepts`       with the hypotheses of `C03_de_refines_spec` — except that the layout
                              must have EXACT block byte sizes (`decodeX`, as in `C03_typed_value`
                              and `C12_skip_all_layouts`) — a request that fits succeeds, for every
                              `favor`, consumes exactly the datum, and what it returns is
                              `consistent` with `Spec.observe S node v`;
  * `C03_typed_accepts_needs_exact_sizes`  the one changed hypothesis is necessary: an input that
                              satisfies `hlim` (`decodeL Limits.impl`) of `C03_de_refines_spec` on
                              which a request that fits (`ignored`; a struct that omits a field)
                              FAILS;
  * `C03_typed_accepts_needs_fits`  without `fits` the read can fail (a 1-tuple on a 2-element
                              array, an enum target without the branch) or hand the visitor a value
                              of another kind (`str` on a `long`).
-/
namespace Avro.Theorems
open Avro Avro.Spec Avro.Impl

/-- **C03, typed targets: acceptance.**  On a valid layout (`hdec`) within the implementation's
    limits and with exact block byte sizes (`hexact`), whose value the deserializer can represent
    (`hobs`), within the depth budget and `max_seq_size`, with the fuel of `C03_de_refines_spec`:
    every request that fits the node (`hfit`) SUCCEEDS — for every `favor` flag — consumes exactly
    the datum, and returns something consistent with the encoded value. -/
theorem C03_typed_accepts (cfg : DeConfig) (S : Schema) (node : Node) (h : Hint) (k : Nat)
    (v : Spec.Value) (bytes rest : Bytes) (o : Out) (depth fuelS fuelX : Nat) (favor : Bool)
    (hdec : Spec.decode S fuelS node bytes = some (v, rest))
    (hobs : Spec.observe S node v = some o)
    (hexact : (Spec.decodeX Limits.impl S fuelX node bytes).isSome = true)
    (hdepth : Spec.depthOf v ≤ depth) (hseq : Spec.maxLen v ≤ cfg.maxSeqSize)
    (fuel : Nat) (hfuel : Spec.size v * 4 + 8 ≤ fuel)
    (hfit : fits S k h node = true)
    (s : RState) (hs : s.isSlice = true) (hl : s.limit = none) (ha : s.avail = 0)
    (hr : s.rest = bytes) :
    ∃ o', de deExtModel cfg S fuel node depth favor h s = (.ok o', { s with rest := rest }) ∧
      consistent o' o := by
  obtain ⟨x, hx⟩ := Option.isSome_iff_exists.1 hexact
  have := C12_decodeX_agrees S fuelX fuelS node bytes x (v, rest) hx hdec
  subst this
  obtain ⟨o', ho'⟩ := typed_accepts_layouts cfg S k h v node bytes rest o depth fuelX fuel favor hx
    hobs hdepth hseq (by omega) hfit
  have hrun := ho'.run s hs hl ha hr
  exact ⟨o', hrun,
    (C03_typed_value cfg S node h v bytes rest o depth fuelX fuel favor hx hobs s _ o' hs hl ha hr
      hrun).1⟩

/-- the statement asked for (`favor = false`, success only) -/
theorem C03_typed_accepts_run (cfg : DeConfig) (S : Schema) (node : Node) (h : Hint) (k : Nat)
    (v : Spec.Value) (bytes rest : Bytes) (o : Out) (depth fuelS fuelX : Nat)
    (hdec : Spec.decode S fuelS node bytes = some (v, rest))
    (hobs : Spec.observe S node v = some o)
    (hexact : (Spec.decodeX Limits.impl S fuelX node bytes).isSome = true)
    (hdepth : Spec.depthOf v ≤ depth) (hseq : Spec.maxLen v ≤ cfg.maxSeqSize)
    (fuel : Nat) (hfuel : Spec.size v * 4 + 8 ≤ fuel)
    (hfit : fits S k h node = true)
    (s : RState) (hs : s.isSlice = true) (hl : s.limit = none) (ha : s.avail = 0)
    (hr : s.rest = bytes) :
    ∃ o', de deExtModel cfg S fuel node depth false h s = (.ok o', { s with rest := rest }) := by
  obtain ⟨o', h1, _⟩ := C03_typed_accepts cfg S node h k v bytes rest o depth fuelS fuelX false hdec
    hobs hexact hdepth hseq fuel hfuel hfit s hs hl ha hr
  exact ⟨o', h1⟩

/-- The same on the limited decoder alone, with the sharp fuel bound `3 * size v`. -/
theorem C03_typed_accepts_impl_layouts (cfg : DeConfig) (S : Schema) (node : Node) (h : Hint)
    (k : Nat) (v : Spec.Value) (bytes rest : Bytes) (o : Out) (depth fuelX : Nat) (favor : Bool)
    (hdec : Spec.decodeX Limits.impl S fuelX node bytes = some (v, rest))
    (hobs : Spec.observe S node v = some o)
    (hdepth : Spec.depthOf v ≤ depth) (hseq : Spec.maxLen v ≤ cfg.maxSeqSize)
    (fuel : Nat) (hfuel : 3 * Spec.size v ≤ fuel)
    (hfit : fits S k h node = true)
    (s : RState) (hs : s.isSlice = true) (hl : s.limit = none) (ha : s.avail = 0)
    (hr : s.rest = bytes) :
    ∃ o', de deExtModel cfg S fuel node depth favor h s = (.ok o', { s with rest := rest }) ∧
      consistent o' o := by
  obtain ⟨o', ho'⟩ := typed_accepts_layouts cfg S k h v node bytes rest o depth fuelX fuel favor hdec
    hobs hdepth hseq hfuel hfit
  have hrun := ho'.run s hs hl ha hr
  exact ⟨o', hrun,
    (C03_typed_value cfg S node h v bytes rest o depth fuelX fuel favor hdec hobs s _ o' hs hl ha hr
      hrun).1⟩

/-! ### Non-vacuity -/

/-- the struct target `struct T { c: i64, b: Option<i64>, a: Vec<i64> }` fits the record
    `{a: array<int>, b: union {null, long}, c: long}` of `C12typed.lean` … -/
example : fits c12TypedSchema 3 c12TypedHint c12TypedNode = true := by decide

/-- … and so does the one that lacks `a` (read as `ignored`) -/
example : fits c12TypedSchema 3 c12TypedHintNoA c12TypedNode = true := by decide

/-- `fits` is not trivial -/
example : fits c12TypedSchema 3 (.struct [("c", .str)]) c12TypedNode = false ∧
    fits c12TypedSchema 3 (.struct [("zz", .any)]) c12TypedNode = false ∧
    fits c12TypedSchema 9 (.option .i64) .long = false ∧
    fits c12TypedSchema 9 (.seq .str) (.array 0) = false := by decide

/-- every hypothesis of `C03_typed_accepts` instantiated on the record
    `{a: [1, 2, 3] (two blocks, one sized), b: union branch 1 = 5, c: 7}` and the struct target above:
    the typed read succeeds, leaves `2a`, and returns something consistent with the encoded value -/
example : ∃ o', de deExtModel {} c12TypedSchema 100 c12TypedNode 64 false c12TypedHint
      { rest := c12TypedBytes } = (.ok o', { rest := [0x2a] }) ∧
    consistent o' (.map [(.str "a" false, .seq [.i32 1, .i32 2, .i32 3]),
                         (.str "b" false, .i64 5), (.str "c" false, .i64 7)]) :=
  C03_typed_accepts {} c12TypedSchema c12TypedNode c12TypedHint 3
    (.record [.array [.int 1, .int 2, .int 3], .union 1 (.long 5), .long 7]) c12TypedBytes [0x2a] _
    64 10 10 false (by rfl) (by rfl) (by rfl) (by decide) (by decide) 100 (by decide) (by decide)
    { rest := c12TypedBytes } rfl rfl rfl rfl

/-- the same for the target without `a`: the sized block is jumped over -/
example : ∃ o', de deExtModel {} c12TypedSchema 100 c12TypedNode 64 false c12TypedHintNoA
      { rest := c12TypedBytes } = (.ok o', { rest := [0x2a] }) :=
  C03_typed_accepts_run {} c12TypedSchema c12TypedNode c12TypedHintNoA 3
    (.record [.array [.int 1, .int 2, .int 3], .union 1 (.long 5), .long 7]) c12TypedBytes [0x2a] _
    64 10 10 (by rfl) (by rfl) (by rfl) (by decide) (by decide) 100 (by decide) (by decide)
    { rest := c12TypedBytes } rfl rfl rfl rfl

/-! ### The hypotheses -/

/-- `array<int>` = `[1]` in one block that announces 4 bytes for its 1-byte item, then the end
    marker -/
def c03WrongSizeArr : Bytes := [0x01, 0x08, 0x02, 0x00]

/-- **Exact block sizes are necessary** (this is the one hypothesis that differs from those of
    `C03_de_refines_spec`).  `c03WrongSizeArr` satisfies every hypothesis of `C03_de_refines_spec`
    (`Spec.decode` and `decodeL Limits.impl` accept it as `[1]`, and the self-describing read
    succeeds), the request `ignored` fits, and the typed read FAILS (it jumps 4 bytes, 2 are left).
    Likewise for a struct request that omits the field (`c12WrongSize` of `C12layouts.lean` with
    one more announced byte would do; here the record `{a: array<int>}` and `struct {}`). -/
theorem C03_typed_accepts_needs_exact_sizes :
    Spec.decode #[.int] 10 (.array 0) c03WrongSizeArr = some (.array [.int 1], []) ∧
    Spec.decodeL Limits.impl #[.int] 10 (.array 0) c03WrongSizeArr = some (.array [.int 1], []) ∧
    Spec.decodeX Limits.impl #[.int] 10 (.array 0) c03WrongSizeArr = none ∧
    de deExtModel {} #[.int] 50 (.array 0) 64 false .any { rest := c03WrongSizeArr } =
      (.ok (.seq [.i32 1]), { rest := [] }) ∧
    fits #[.int] 0 .ignored (.array 0) = true ∧
    (de deExtModel {} #[.int] 50 (.array 0) 64 false .ignored { rest := c03WrongSizeArr }).1 =
      .error .custom ∧
    fits #[.int, .array 0] 1 (.struct []) (.record c12Rec [("a", 1)]) = true ∧
    (de deExtModel {} #[.int, .array 0] 50 (.record c12Rec [("a", 1)]) 64 false (.struct [])
      { rest := c03WrongSizeArr }).1 = .error .custom := by
  refine ⟨?_, ?_, ?_, ?_, ?_, ?_, ?_, ?_⟩ <;> with_unfolding_all rfl

/-- **`fits` is needed**: on valid inputs, requests that do not fit do not succeed as such — `str` on
    a `long` hands `visit_i64` to the string visitor (the model's read returns `i64 5`; a real
    `String` target rejects it), a 1-tuple on a 2-element array and an enum target without the
    branch's name are errors of the read itself. -/
theorem C03_typed_accepts_needs_fits :
    (fits #[] 9 .str .long = false ∧
     (de deExtModel {} #[] 9 .long 64 false .str { rest := [0x0a] }).1 = .ok (.i64 5)) ∧
    (fits #[.int] 9 (.tuple 1 .any) (.array 0) = false ∧
     (de deExtModel {} #[.int] 50 (.array 0) 64 false (.tuple 1 .any) { rest := c12Arr12 }).1 =
       .error .custom) ∧
    (fits c12TypedSchema 9 (.enum [("Null", .unit)]) (.union [2, 3]) = false ∧
     (de deExtModel {} c12TypedSchema 50 (.union [2, 3]) 64 false (.enum [("Null", .unit)])
       { rest := [0x02, 0x0a] }).1 = .error .custom) := by
  refine ⟨⟨?_, ?_⟩, ⟨?_, ?_⟩, ⟨?_, ?_⟩⟩ <;> with_unfolding_all rfl

end Avro.Theorems
