import AvroModel.Theorems.C04
import AvroModel.Theorems.C04fuel
/-
C04 — all parts together: totality and resource bounds of the deserializer model (`C04.lean`) and
the same statements at the fuel the driver actually passes (`C04fuel.lean`: `deFuel` dominates
`fuelBound`, so what the driver evaluates is the fuel-independent result).
-/
