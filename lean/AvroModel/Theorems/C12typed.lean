import AvroModel.Lemmas.TypedConsume
import AvroModel.Theorems.C12layouts
/-
C12 / C03 / C01 — typed targets consume exactly what the self-describing read consumes.

`C03_de_refines_spec` (target `.any`), `C12_skip_all_layouts` (target `.ignored`) and the two special
cases of `C12layouts.lean` say that the read ends exactly where the specification decoder ends.
Here the same is proved for the targets real programs use — `Option<T>`, `Vec<T>`, maps, nested
structs (any subset of the fields, in any order), enums with unit / newtype / struct variants, scalar
targets with the integer / float / string coercions, identifiers — on EVERY layout with exact block
sizes (`Spec.decodeX Limits.impl`), in the form

    whenever the typed read succeeds, it has consumed exactly the datum.

Only successful runs are looked at, so NO hypothesis on the depth budget, `max_seq_size`, the model
fuel, `rust_decimal`'s range or the `favor` flag is needed (they decide *whether* the read succeeds,
not *what it consumes*): the theorems are stronger than asked.

NO EXCEPTION ANY MORE (defect fixed in the crate, model changed accordingly).  A TUPLE target
(`deserialize_tuple(n)`: Rust tuples, `[T; N]`, tuple structs, tuple variants) offered an Avro ARRAY
used to be the one exception: `deserialize_tuple` builds the same `ArraySeqAccess` as
`deserialize_seq` and ignores `len`; serde's tuple visitor pulls exactly `n` elements and returns, so
the end-of-array marker (and every item beyond the `n`-th) stayed unread and what followed was read
from the wrong place (`struct R { a: (i32, i32), b: i32 }` on `04 02 04 00 0e` gave
`Ok(R { a: (1, 2), b: 0 })`).  The fix (`ArraySeqAccess::visit`, de/deserializer/types/blocks.rs)
asks `has_more()` once more after the visitor has returned unless the end has been read already:
more elements → `Err`, otherwise the end marker is consumed.  In the model: `deSeqLoop`, branch
`maxItems = some 0`.  So now the theorem holds for EVERY request (`C12_typed_consumes_all`); the
former counterexamples are kept below on the same inputs, with what happens now: the read consumes
exactly the datum, or is an error when the array has more items than the tuple.  (With `n` larger
than the number of items the model reads the end marker and consumes exactly; in the crate serde's
visitor then fails with `invalid length`.)

RESULTS
  * `C12_typed_consumes_all`     for EVERY request `h` and every node: a successful typed read has
                                 consumed exactly the datum;
  * `C12_typed_consumes_all_spec`, `C12_typed_same_state_as_any_all`: the same in the shape of
                                 `C12_skip_all_layouts`, and "ends where the self-describing read ends";
  * `C12_typed_consumes_closed`  for every family `ok` of (request, node) pairs closed under the
                                 sub-requests of the deserializer (`OkClosed`; it no longer has to
                                 avoid (tuple request, array node));
  * `C12_typed_consumes`, `C12_typed_consumes_top`, `C12_typed_consumes_spec`,
    `C12_typed_same_state_as_any`: the restricted forms of the time before the fix (`Hint.tupleFree`,
                                 `typedOk`), kept; they are corollaries now;
  * the former counterexamples, corrected: `C12_tuple_over_array_reads_to_end`,
    `C12_tupleFree_not_necessary`, `C12_tuple_over_array_next_field_intact`,
    `C12_tuple_under_option_over_array`, `C12_tuple_over_union_with_array`,
    `C12_tuple_longer_than_array_consumes`.
-/
namespace Avro.Theorems
open Avro Avro.Spec Avro.Impl

/-- **C12, typed targets (general form).**  `ok` is any family of (request, node) pairs closed under
    the sub-requests the deserializer makes. -/
theorem C12_typed_consumes_closed (cfg : DeConfig) (S : Schema) (ok : Hint → Node → Prop)
    (hclosed : OkClosed S ok) (node : Node) (h : Hint) (hok : ok h node)
    (v : Spec.Value) (bytes rest : Bytes) (depth fuelX fuel : Nat) (favor : Bool)
    (hdec : Spec.decodeX Limits.impl S fuelX node bytes = some (v, rest))
    (s s' : RState) (o : Out)
    (hs : s.isSlice = true) (hl : s.limit = none) (ha : s.avail = 0) (hr : s.rest = bytes)
    (hrun : de deExtModel cfg S fuel node depth favor h s = (.ok o, s')) :
    s' = { s with rest := rest } := by
  subst hr
  exact typed_consumes_run S cfg hclosed node depth fuel favor h hok s s' o hs hl ha hrun v rest
    fuelX hdec

/-- **C12, typed targets, every request.**  For EVERY request `h`, every schema, node,
    configuration, depth budget, fuel and `favor` flag, on every valid layout with exact block sizes:
    if the typed read succeeds, it leaves exactly `rest` and changes nothing else of the state. -/
theorem C12_typed_consumes_all (cfg : DeConfig) (S : Schema) (node : Node) (h : Hint)
    (v : Spec.Value) (bytes rest : Bytes) (depth fuelX fuel : Nat) (favor : Bool)
    (hdec : Spec.decodeX Limits.impl S fuelX node bytes = some (v, rest))
    (s s' : RState) (o : Out)
    (hs : s.isSlice = true) (hl : s.limit = none) (ha : s.avail = 0) (hr : s.rest = bytes)
    (hrun : de deExtModel cfg S fuel node depth favor h s = (.ok o, s')) :
    s' = { s with rest := rest } :=
  C12_typed_consumes_closed cfg S _ (allOk_closed S) node h trivial v bytes rest depth fuelX fuel
    favor hdec s s' o hs hl ha hr hrun

/-- in particular the remaining input is `rest` -/
theorem C12_typed_consumes_all_rest (cfg : DeConfig) (S : Schema) (node : Node) (h : Hint)
    (v : Spec.Value) (bytes rest : Bytes) (depth fuelX fuel : Nat) (favor : Bool)
    (hdec : Spec.decodeX Limits.impl S fuelX node bytes = some (v, rest))
    (s s' : RState) (o : Out)
    (hs : s.isSlice = true) (hl : s.limit = none) (ha : s.avail = 0) (hr : s.rest = bytes)
    (hrun : de deExtModel cfg S fuel node depth favor h s = (.ok o, s')) :
    s'.rest = rest := by
  rw [C12_typed_consumes_all cfg S node h v bytes rest depth fuelX fuel favor hdec s s' o hs hl ha
    hr hrun]

/-- **C12, typed targets without tuple requests** (the form of the time before the fix of
    `ArraySeqAccess`; now a special case of `C12_typed_consumes_all`, the restriction is not needed:
    `C12_tupleFree_not_necessary`). -/
theorem C12_typed_consumes (cfg : DeConfig) (S : Schema) (node : Node) (h : Hint)
    (htf : h.tupleFree = true)
    (v : Spec.Value) (bytes rest : Bytes) (depth fuelX fuel : Nat) (favor : Bool)
    (hdec : Spec.decodeX Limits.impl S fuelX node bytes = some (v, rest))
    (s s' : RState) (o : Out)
    (hs : s.isSlice = true) (hl : s.limit = none) (ha : s.avail = 0) (hr : s.rest = bytes)
    (hrun : de deExtModel cfg S fuel node depth favor h s = (.ok o, s')) :
    s' = { s with rest := rest } :=
  C12_typed_consumes_closed cfg S _ (tupleFree_closed S) node h htf v bytes rest depth fuelX fuel
    favor hdec s s' o hs hl ha hr hrun

/-- in particular the remaining input is `rest` -/
theorem C12_typed_consumes_rest (cfg : DeConfig) (S : Schema) (node : Node) (h : Hint)
    (htf : h.tupleFree = true)
    (v : Spec.Value) (bytes rest : Bytes) (depth fuelX fuel : Nat) (favor : Bool)
    (hdec : Spec.decodeX Limits.impl S fuelX node bytes = some (v, rest))
    (s s' : RState) (o : Out)
    (hs : s.isSlice = true) (hl : s.limit = none) (ha : s.avail = 0) (hr : s.rest = bytes)
    (hrun : de deExtModel cfg S fuel node depth favor h s = (.ok o, s')) :
    s'.rest = rest := by
  rw [C12_typed_consumes cfg S node h htf v bytes rest depth fuelX fuel favor hdec s s' o hs hl ha
    hr hrun]

/-- the decidable predicate on (request, node): no tuple request inside, or a tuple request on a
    node that is neither an array nor a union -/
def typedOk (h : Hint) (n : Node) : Bool :=
  h.tupleFree || (match h with
    | .tuple _ _ => n.noArr
    | _ => false)

theorem typedOk_okTop {h : Hint} {n : Node} (hh : typedOk h n = true) : okTop h n := by
  unfold typedOk at hh
  rcases Bool.or_eq_true_iff.1 hh with h1 | h2
  · exact Or.inl h1
  · cases h with
    | tuple k e => exact Or.inr ⟨k, e, rfl, h2⟩
    | _ => cases h2

/-- **C12, typed targets, with tuple requests where they are harmless.** -/
theorem C12_typed_consumes_top (cfg : DeConfig) (S : Schema) (node : Node) (h : Hint)
    (hok : typedOk h node = true)
    (v : Spec.Value) (bytes rest : Bytes) (depth fuelX fuel : Nat) (favor : Bool)
    (hdec : Spec.decodeX Limits.impl S fuelX node bytes = some (v, rest))
    (s s' : RState) (o : Out)
    (hs : s.isSlice = true) (hl : s.limit = none) (ha : s.avail = 0) (hr : s.rest = bytes)
    (hrun : de deExtModel cfg S fuel node depth favor h s = (.ok o, s')) :
    s' = { s with rest := rest } :=
  C12_typed_consumes_closed cfg S _ (okTop_closed S) node h (typedOk_okTop hok) v bytes rest depth
    fuelX fuel favor hdec s s' o hs hl ha hr hrun

/-- The same with the hypotheses in the shape of `C12_skip_all_layouts`: `Spec.decode` accepts the
    input as `(v, rest)`, and it is within the implementation's limits with exact block sizes. -/
theorem C12_typed_consumes_spec (cfg : DeConfig) (S : Schema) (node : Node) (h : Hint)
    (hok : typedOk h node = true)
    (v : Spec.Value) (bytes rest : Bytes) (depth fuelS fuelX fuel : Nat) (favor : Bool)
    (hdec : Spec.decode S fuelS node bytes = some (v, rest))
    (hexact : (Spec.decodeX Limits.impl S fuelX node bytes).isSome = true)
    (s s' : RState) (o : Out)
    (hs : s.isSlice = true) (hl : s.limit = none) (ha : s.avail = 0) (hr : s.rest = bytes)
    (hrun : de deExtModel cfg S fuel node depth favor h s = (.ok o, s')) :
    s' = { s with rest := rest } := by
  obtain ⟨x, hx⟩ := Option.isSome_iff_exists.1 hexact
  have := C12_decodeX_agrees S fuelX fuelS node bytes x (v, rest) hx hdec
  subst this
  exact C12_typed_consumes_top cfg S node h hok v bytes rest depth fuelX fuel favor hx s s' o hs hl
    ha hr hrun

/-- A successful typed read and a successful self-describing read of the same datum end in the
    same state (so whatever is read next is read from the same bytes).  The depth budgets, fuels
    and `favor` flags of the two runs are independent. -/
theorem C12_typed_same_state_as_any (cfg : DeConfig) (S : Schema) (node : Node) (h : Hint)
    (hok : typedOk h node = true) (depth depth' fuel fuel' : Nat) (favor : Bool)
    (s s₁ s₂ : RState) (o₁ o₂ : Out)
    (hs : s.isSlice = true) (hl : s.limit = none) (ha : s.avail = 0)
    (hexact : ∃ fuelX, (Spec.decodeX Limits.impl S fuelX node s.rest).isSome = true)
    (htyped : de deExtModel cfg S fuel node depth favor h s = (.ok o₁, s₁))
    (hany : de deExtModel cfg S fuel' node depth' false .any s = (.ok o₂, s₂)) :
    s₁ = s₂ := by
  obtain ⟨fuelX, hx⟩ := hexact
  obtain ⟨⟨v, rest⟩, hx⟩ := Option.isSome_iff_exists.1 hx
  rw [C12_typed_consumes_top cfg S node h hok v s.rest rest depth fuelX fuel favor hx s s₁ o₁ hs hl
    ha rfl htyped]
  rw [C12_typed_consumes cfg S node .any rfl v s.rest rest depth' fuelX fuel' false hx s s₂ o₂ hs hl
    ha rfl hany]

/-- `C12_typed_consumes_all` with the hypotheses in the shape of `C12_skip_all_layouts`. -/
theorem C12_typed_consumes_all_spec (cfg : DeConfig) (S : Schema) (node : Node) (h : Hint)
    (v : Spec.Value) (bytes rest : Bytes) (depth fuelS fuelX fuel : Nat) (favor : Bool)
    (hdec : Spec.decode S fuelS node bytes = some (v, rest))
    (hexact : (Spec.decodeX Limits.impl S fuelX node bytes).isSome = true)
    (s s' : RState) (o : Out)
    (hs : s.isSlice = true) (hl : s.limit = none) (ha : s.avail = 0) (hr : s.rest = bytes)
    (hrun : de deExtModel cfg S fuel node depth favor h s = (.ok o, s')) :
    s' = { s with rest := rest } := by
  obtain ⟨x, hx⟩ := Option.isSome_iff_exists.1 hexact
  have := C12_decodeX_agrees S fuelX fuelS node bytes x (v, rest) hx hdec
  subst this
  exact C12_typed_consumes_all cfg S node h v bytes rest depth fuelX fuel favor hx s s' o hs hl
    ha hr hrun

/-- For EVERY request: a successful typed read and a successful self-describing read of the same
    datum end in the same state. -/
theorem C12_typed_same_state_as_any_all (cfg : DeConfig) (S : Schema) (node : Node) (h : Hint)
    (depth depth' fuel fuel' : Nat) (favor : Bool)
    (s s₁ s₂ : RState) (o₁ o₂ : Out)
    (hs : s.isSlice = true) (hl : s.limit = none) (ha : s.avail = 0)
    (hexact : ∃ fuelX, (Spec.decodeX Limits.impl S fuelX node s.rest).isSome = true)
    (htyped : de deExtModel cfg S fuel node depth favor h s = (.ok o₁, s₁))
    (hany : de deExtModel cfg S fuel' node depth' false .any s = (.ok o₂, s₂)) :
    s₁ = s₂ := by
  obtain ⟨fuelX, hx⟩ := hexact
  obtain ⟨⟨v, rest⟩, hx⟩ := Option.isSome_iff_exists.1 hx
  rw [C12_typed_consumes_all cfg S node h v s.rest rest depth fuelX fuel favor hx s s₁ o₁ hs hl
    ha rfl htyped]
  rw [C12_typed_consumes_all cfg S node .any v s.rest rest depth' fuelX fuel' false hx s s₂ o₂ hs hl
    ha rfl hany]

/-! ### The former exception: a tuple request on an array node -/

/-- `[1, 2] : array<int>` in one block, then one more byte -/
def c12Arr12 : Bytes := [0x04, 0x02, 0x04, 0x00, 0x0e]

/-- **The former counterexample, now.**  The datum `[1, 2]` occupies four bytes (`decodeX` leaves
    `[0e]`); the `Vec` target consumes them; the 2-tuple target now reads the end-of-array marker
    too and leaves `[0e]` (it used to leave `[00, 0e]`); a 1-tuple and a 0-tuple are now errors
    (class custom: "Array has more elements than what we are deserializing into expects"; they used
    to succeed, leaving `[04, 00, 0e]` and everything); a 0-tuple on the empty array reads its
    marker. -/
theorem C12_tuple_over_array_reads_to_end :
    Spec.decodeX Limits.impl #[.int] 10 (.array 0) c12Arr12 =
      some (.array [.int 1, .int 2], [0x0e]) ∧
    de deExtModel {} #[.int] 50 (.array 0) 64 false (.seq .any) { rest := c12Arr12 } =
      (.ok (.seq [.i32 1, .i32 2]), { rest := [0x0e] }) ∧
    de deExtModel {} #[.int] 50 (.array 0) 64 false (.tuple 2 .any) { rest := c12Arr12 } =
      (.ok (.seq [.i32 1, .i32 2]), { rest := [0x0e] }) ∧
    (de deExtModel {} #[.int] 50 (.array 0) 64 false (.tuple 1 .any) { rest := c12Arr12 }).1 =
      .error .custom ∧
    (de deExtModel {} #[.int] 50 (.array 0) 64 false (.tuple 0 .any) { rest := c12Arr12 }).1 =
      .error .custom ∧
    de deExtModel {} #[.int] 50 (.array 0) 64 false (.tuple 0 .any) { rest := [0x00, 0x0e] } =
      (.ok (.seq []), { rest := [0x0e] }) := by
  refine ⟨by rfl, ?_, ?_, ?_, ?_, ?_⟩ <;> with_unfolding_all rfl

/-- the same when the items come in two blocks `[1] [2]`: the 2-tuple reads the end marker after
    the second block; the 1-tuple reads the header of the second block and is an error -/
theorem C12_tuple_over_array_two_blocks :
    Spec.decodeX Limits.impl #[.int] 10 (.array 0) [0x02, 0x02, 0x02, 0x04, 0x00, 0x0e] =
      some (.array [.int 1, .int 2], [0x0e]) ∧
    de deExtModel {} #[.int] 50 (.array 0) 64 false (.tuple 2 .any)
        { rest := [0x02, 0x02, 0x02, 0x04, 0x00, 0x0e] } =
      (.ok (.seq [.i32 1, .i32 2]), { rest := [0x0e] }) ∧
    (de deExtModel {} #[.int] 50 (.array 0) 64 false (.tuple 1 .any)
        { rest := [0x02, 0x02, 0x02, 0x04, 0x00, 0x0e] }).1 = .error .custom := by
  refine ⟨by rfl, ?_, ?_⟩ <;> with_unfolding_all rfl

/-- the statement that used to be refuted (`C12_tupleFree_necessary` was its negation) now HOLDS:
    on this input every request that succeeds leaves `[0e]` — an instance of
    `C12_typed_consumes_all`, with a tuple request among the `h` (the third conjunct above is a
    successful run it applies to) -/
theorem C12_tupleFree_not_necessary :
    ∀ (h : Hint) (s' : RState) (o : Out),
      de deExtModel {} #[.int] 50 (.array 0) 64 false h { rest := c12Arr12 } = (.ok o, s') →
      s'.rest = [0x0e] := by
  intro h s' o hrun
  exact C12_typed_consumes_all_rest {} #[.int] (.array 0) h _ c12Arr12 [0x0e] 64 10 50 false (by rfl)
    { rest := c12Arr12 } s' o rfl rfl rfl rfl hrun

/-- `0: int`, `1: array<int>`, `2: record r {a: array<int>, b: int}` (the schema of
    `C12_wrong_block_size_discrepancy`) -/
def c12TupleRec : Node := .record c12Rec [("a", 1), ("b", 0)]

/-- **The next field is read from the right place.**  `{a: [1, 2], b: 7}`: the struct target with
    `a: Vec<_>` gets `b = 7`; with `a: (_, _)` it now gets `b = 7` too (it used to get `b = 0`, the
    unread end marker, and to leave the byte of `b`); with `a: (_,)` the read is an error. -/
theorem C12_tuple_over_array_next_field_intact :
    Spec.decodeX Limits.impl c12Schema 10 c12TupleRec c12Arr12 =
      some (.record [.array [.int 1, .int 2], .int 7], []) ∧
    de deExtModel {} c12Schema 50 c12TupleRec 64 false
        (.struct [("a", .seq .any), ("b", .any)]) { rest := c12Arr12 } =
      (.ok (.map [(.str "a" false, .seq [.i32 1, .i32 2]), (.str "b" false, .i32 7)]),
        { rest := [] }) ∧
    de deExtModel {} c12Schema 50 c12TupleRec 64 false
        (.struct [("a", .tuple 2 .any), ("b", .any)]) { rest := c12Arr12 } =
      (.ok (.map [(.str "a" false, .seq [.i32 1, .i32 2]), (.str "b" false, .i32 7)]),
        { rest := [] }) ∧
    (de deExtModel {} c12Schema 50 c12TupleRec 64 false
        (.struct [("a", .tuple 1 .any), ("b", .any)]) { rest := c12Arr12 }).1 = .error .custom := by
  refine ⟨by rfl, ?_, ?_, ?_⟩ <;> with_unfolding_all rfl

/-- the tuple request may sit anywhere inside the target: `Option<(T,)>` on `[1, 2]` is now an
    error (it used to succeed leaving `[04, 00, 0e]`), `Option<(T, T)>` consumes exactly -/
theorem C12_tuple_under_option_over_array :
    (de deExtModel {} #[.int] 50 (.array 0) 64 false (.option (.tuple 1 .any))
        { rest := c12Arr12 }).1 = .error .custom ∧
    de deExtModel {} #[.int] 50 (.array 0) 64 false (.option (.tuple 2 .any)) { rest := c12Arr12 } =
      (.ok (.some (.seq [.i32 1, .i32 2])), { rest := [0x0e] }) := by
  refine ⟨?_, ?_⟩ <;> with_unfolding_all rfl

/-- … and the array may sit behind a union: `union {int, array<int>}`, branch 1, `[1]`, then `09`:
    the 1-tuple now reads the end marker (it used to leave `[00, 09]`; this is why `typedOk`
    excluded union nodes for a tuple request); a 0-tuple is an error. -/
theorem C12_tuple_over_union_with_array :
    Spec.decodeX Limits.impl #[.int, .array 0] 10 (.union [0, 1]) [0x02, 0x02, 0x02, 0x00, 0x09] =
      some (.union 1 (.array [.int 1]), [0x09]) ∧
    de deExtModel {} #[.int, .array 0] 50 (.union [0, 1]) 64 false (.tuple 1 .any)
        { rest := [0x02, 0x02, 0x02, 0x00, 0x09] } =
      (.ok (.seq [.i32 1]), { rest := [0x09] }) ∧
    (de deExtModel {} #[.int, .array 0] 50 (.union [0, 1]) 64 false (.tuple 0 .any)
        { rest := [0x02, 0x02, 0x02, 0x00, 0x09] }).1 = .error .custom := by
  refine ⟨by rfl, ?_, ?_⟩ <;> with_unfolding_all rfl

/-- A tuple request for more elements than the array has reads the end marker in the loop and
    consumes exactly, as before the fix (in the crate serde's visitor then reports
    `invalid length`). -/
theorem C12_tuple_longer_than_array_consumes :
    de deExtModel {} #[.int] 50 (.array 0) 64 false (.tuple 3 .any) { rest := c12Arr12 } =
      (.ok (.seq [.i32 1, .i32 2]), { rest := [0x0e] }) := by
  with_unfolding_all rfl

/-! ### Non-vacuity: the theorems on concrete, non-trivial inputs -/

/-- `0: int`, `1: array<int>`, `2: null`, `3: long`, `4: union {null, long}`,
    `5: record t {a: array<int>, b: union {null, long}, c: long}` -/
def c12TypedSchema : Schema :=
  #[.int, .array 0, .null, .long, .union [2, 3],
    .record { fq := "t", short := "t", ns := none } [("a", 1), ("b", 4), ("c", 3)]]

def c12TypedNode : Node :=
  .record { fq := "t", short := "t", ns := none } [("a", 1), ("b", 4), ("c", 3)]

/-- `a = [1, 2, 3]` in two blocks (the first with its byte size: count `-2`, size `2`), `b = 5`
    (branch 1), `c = 7`; then `2a`. -/
def c12TypedBytes : Bytes :=
  [0x03, 0x04, 0x02, 0x04, 0x02, 0x06, 0x00,  0x02, 0x0a,  0x0e,  0x2a]

/-- a Rust target `struct T { c: i64, b: Option<i64>, a: Vec<i64> }` (fields in another order than
    the schema) -/
def c12TypedHint : Hint := .struct [("c", .i64), ("b", .option .i64), ("a", .seq .i64)]

/-- … and one that lacks `a` (skipped: the sized block is jumped over) -/
def c12TypedHintNoA : Hint := .struct [("c", .i64), ("b", .option .i64)]

example : Spec.decodeX Limits.impl c12TypedSchema 10 c12TypedNode c12TypedBytes =
    some (.record [.array [.int 1, .int 2, .int 3], .union 1 (.long 5), .long 7], [0x2a]) := by rfl

example : c12TypedHint.tupleFree = true := by rfl

/-- the typed read succeeds … -/
theorem c12Typed_run :
    de deExtModel {} c12TypedSchema 50 c12TypedNode 64 false c12TypedHint { rest := c12TypedBytes } =
      (.ok (.map [(.str "a" false, .seq [.i32 1, .i32 2, .i32 3]),
                  (.str "b" false, .some (.i64 5)),
                  (.str "c" false, .i64 7)]), { rest := [0x2a] }) := by
  with_unfolding_all rfl

/-- … and the theorem applies to it (every hypothesis instantiated): it says where the read ends
    without looking at the run -/
example (o : Out) (s' : RState)
    (hrun : de deExtModel {} c12TypedSchema 50 c12TypedNode 64 false c12TypedHint
      { rest := c12TypedBytes } = (.ok o, s')) : s' = { rest := [0x2a] } :=
  C12_typed_consumes {} c12TypedSchema c12TypedNode c12TypedHint rfl _ c12TypedBytes [0x2a] 64 10 50
    false (by rfl) { rest := c12TypedBytes } s' o rfl rfl rfl rfl hrun

/-- the struct target that lacks `a` jumps over the sized block and skips the other one, and ends
    in the same place -/
example (o : Out) (s' : RState)
    (hrun : de deExtModel {} c12TypedSchema 50 c12TypedNode 64 false c12TypedHintNoA
      { rest := c12TypedBytes } = (.ok o, s')) : s' = { rest := [0x2a] } :=
  C12_typed_consumes {} c12TypedSchema c12TypedNode c12TypedHintNoA rfl _ c12TypedBytes [0x2a] 64 10
    50 false (by rfl) { rest := c12TypedBytes } s' o rfl rfl rfl rfl hrun

example : de deExtModel {} c12TypedSchema 50 c12TypedNode 64 false c12TypedHintNoA
    { rest := c12TypedBytes } =
    (.ok (.map [(.str "a" false, .unit), (.str "b" false, .some (.i64 5)), (.str "c" false, .i64 7)]),
      { rest := [0x2a] }) := by
  with_unfolding_all rfl

/-- an enum target with a newtype variant for the union branch `Long` -/
example (o : Out) (s' : RState)
    (hrun : de deExtModel {} c12TypedSchema 50 (.union [2, 3]) 64 false
      (.enum [("Null", .unit), ("Long", .newtype .i64)]) { rest := [0x02, 0x0a, 0x2a] } = (.ok o, s')) :
    s' = { rest := [0x2a] } :=
  C12_typed_consumes {} c12TypedSchema (.union [2, 3]) _ rfl _ [0x02, 0x0a, 0x2a] [0x2a] 64 10 50
    false (by rfl) { rest := [0x02, 0x0a, 0x2a] } s' o rfl rfl rfl rfl hrun

example : de deExtModel {} c12TypedSchema 50 (.union [2, 3]) 64 false
    (.enum [("Null", .unit), ("Long", .newtype .i64)]) { rest := [0x02, 0x0a, 0x2a] } =
    (.ok (.variant (.str "Long" false) (.i64 5)), { rest := [0x2a] }) := by
  with_unfolding_all rfl

/-- `(u32, u32, u32)` for a duration: `typedOk` holds, `C12_typed_consumes_top` applies -/
example (o : Out) (s' : RState)
    (hrun : de deExtModel {} #[] 50 .duration 64 false (.tuple 3 .any)
      { rest := [1, 0, 0, 0, 2, 0, 0, 0, 3, 0, 0, 0, 9] } = (.ok o, s')) : s' = { rest := [9] } :=
  C12_typed_consumes_top {} #[] .duration (.tuple 3 .any) rfl _ _ [9] 64 5 50 false (by rfl)
    { rest := [1, 0, 0, 0, 2, 0, 0, 0, 3, 0, 0, 0, 9] } s' o rfl rfl rfl rfl hrun

example : de deExtModel {} #[] 50 .duration 64 false (.tuple 3 .any)
    { rest := [1, 0, 0, 0, 2, 0, 0, 0, 3, 0, 0, 0, 9] } =
    (.ok (.seq [.u32 1, .u32 2, .u32 3]), { rest := [9] }) := by
  with_unfolding_all rfl

/-- the same-state corollary on the record above -/
example (s₂ : RState) (o₂ : Out)
    (hany : de deExtModel {} c12TypedSchema 50 c12TypedNode 64 false .any { rest := c12TypedBytes } =
      (.ok o₂, s₂)) : ({ rest := [0x2a] } : RState) = s₂ :=
  C12_typed_same_state_as_any {} c12TypedSchema c12TypedNode c12TypedHint rfl 64 64 50 50 false
    { rest := c12TypedBytes } _ s₂ _ o₂ rfl rfl rfl ⟨10, by rfl⟩ c12Typed_run hany

/-- `C12_typed_consumes_all` on a target WITH tuple requests over arrays: the record
    `{a: [1, 2], b: 7}` read as `struct R { a: (i32, i32), b: i32 }` (every hypothesis instantiated;
    the run exists: third conjunct of `C12_tuple_over_array_next_field_intact`) -/
example (o : Out) (s' : RState)
    (hrun : de deExtModel {} c12Schema 50 c12TupleRec 64 false
      (.struct [("a", .tuple 2 .any), ("b", .any)]) { rest := c12Arr12 } = (.ok o, s')) :
    s' = { rest := [] } :=
  C12_typed_consumes_all {} c12Schema c12TupleRec _ _ c12Arr12 [] 64 10 50 false (by rfl)
    { rest := c12Arr12 } s' o rfl rfl rfl rfl hrun

example : (Hint.struct [("a", .tuple 2 .any), ("b", .any)]).tupleFree = false := by rfl

/-- the tuple target behind a union, excluded by `typedOk` -/
example (o : Out) (s' : RState)
    (hrun : de deExtModel {} #[.int, .array 0] 50 (.union [0, 1]) 64 false (.tuple 1 .any)
      { rest := [0x02, 0x02, 0x02, 0x00, 0x09] } = (.ok o, s')) : s' = { rest := [0x09] } :=
  C12_typed_consumes_all {} #[.int, .array 0] (.union [0, 1]) (.tuple 1 .any) _ _ [0x09] 64 10 50
    false (by rfl) { rest := [0x02, 0x02, 0x02, 0x00, 0x09] } s' o rfl rfl rfl rfl hrun

example : typedOk (.tuple 1 .any) (.union [0, 1]) = false := by rfl

/-- the same-state corollary for a tuple target -/
example (s₂ : RState) (o₂ : Out)
    (hany : de deExtModel {} #[.int] 50 (.array 0) 64 false .any { rest := c12Arr12 } =
      (.ok o₂, s₂)) : ({ rest := [0x0e] } : RState) = s₂ :=
  C12_typed_same_state_as_any_all {} #[.int] (.array 0) (.tuple 2 .any) 64 64 50 50 false
    { rest := c12Arr12 } _ s₂ _ o₂ rfl rfl rfl ⟨10, by rfl⟩
    C12_tuple_over_array_reads_to_end.2.2.1 hany

end Avro.Theorems
