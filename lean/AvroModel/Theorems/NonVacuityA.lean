import Driver.Parse
import AvroModel.Theorems.C01driver
import AvroModel.Theorems.C01full
import AvroModel.Theorems.C03full
import AvroModel.Theorems.C04fuel
/-
Non-vacuity audit, area A: properties C01 (datum round trip), C02 (serializer soundness),
C03 (decoder conformance).

Contents
  §1  `ExtOK` against the external-parameter table the driver really runs (`ExtTable.toExt`):
      with its `rescale` clause in the conditional form (repaired after this audit) it HOLDS for
      every table that passes the driver's range check (`Theorems.toExt_ExtOK`, `tB_ok`,
      `empty_ok`), and every instance below uses the driver's own `toExt`; the former
      unconditional clause is false for every table (`toExt_not_ExtOK_unconditional`).
  §2  `Good` against the driver's initial serializer states.
  §3  serializer side on a schema obtained with `freezeNodes` (namespaced record, array, union,
      enum, decimal on bytes and on fixed, one field fed through `rust_decimal`'s parser):
      `C02_sound_strong`, `C02_sound_partial`, `C01_ser_canonical`, `C01_ser_canonical_checks`,
      `C01_roundtrip_impl` (made concrete, with the driver's fuel), per-arm theorems,
      `C02_unrepresentable_err`, `C01_roundtrip_impl_bounded` (its `hlim` proved for a concrete
      presentation), and a conforming presentation that NO permission set `f` of
      `C01_ser_canonical` covers.
  §4  deserializer side, canonical input: `C01_de_accepts`, `_schema`, `_nil`,
      `C03_canonical_within_limits`.
  §5  deserializer side, a layout that is NOT canonical (two blocks, a negative count with a
      byte size written as a non-minimal varint, a non-minimal end marker, a long on three bytes):
      `C03_de_refines_spec`, `C03_de_accepts_impl_layouts`, `C03_de_sound`,
      `C03_de_rejects_invalid`, `C03_decodeL_*`; an invalid input (bad union index in the second
      block): `C03_invalid_is_err`, `C03_invalid_is_err_class` at the driver's fuel.
  §6  the fuel hypotheses against the driver's fuel (`Avro.Impl.deFuel`, used by `deOne`,
      Driver/Main.lean): the driver's fuel is unconditionally `≥ fuelBound`
      (`fuelBound_le_deFuel`), so the acceptance theorems transfer to the driver's runs
      (`C03_de_refines_spec_at_driverFuel`).
-/
namespace Avro.NonVacuityA
open Avro Avro.Impl Avro.Spec Avro.Theorems Driver

/-! ## §1 `ExtOK` and the driver's parameter table -/

/-- largest `|mantissa|` among the keys of a `rescale` table -/
def keyBound : List ((Int × Nat × Nat) × (Int × Nat)) → Nat
  | [] => 0
  | p :: r => max p.1.1.natAbs (keyBound r)

theorem lookup_big_none (l : List ((Int × Nat × Nat) × (Int × Nat))) (m : Int)
    (hm : (keyBound l : Int) < m) (s target : Nat) : l.lookup (m, s, target) = none := by
  induction l with
  | nil => rfl
  | cons p r ih =>
    have h1 : (p.1.1.natAbs : Int) < m := by
      have : p.1.1.natAbs ≤ keyBound (p :: r) := Nat.le_max_left _ _
      omega
    have h2 : (keyBound r : Int) < m := by
      have : keyBound r ≤ keyBound (p :: r) := Nat.le_max_right _ _
      omega
    obtain ⟨⟨a, b, c⟩, v⟩ := p
    have hne : ((m, s, target) == (a, b, c)) = false := by
      simp only [beq_eq_false_iff_ne, ne_eq, Prod.mk.injEq, not_and]
      intro h; subst h; simp only at h1; omega
    simp only [List.lookup, hne]
    exact ih h2

/-- **Finding (repaired).**  `ExtOK.rescale` used to read
    `∀ d scale, inI128 (ext.decRescale d scale).1`, over all pairs `d : Int × Nat`, also those whose
    mantissa does not fit `i128`; `toExt` answers `d` itself outside its finite table, so that
    clause was FALSE for the `Ext` the driver passes to `ser`, for EVERY table `t`. -/
theorem toExt_not_ExtOK_unconditional (t : ExtTable) :
    ¬ ∀ d scale, inI128 (t.toExt.decRescale d scale).1 = true := by
  intro h
  have h1 := h ((2:Int)^127 + keyBound t.rescale + 1, 0) 0
  have h2 := lookup_big_none t.rescale ((2:Int)^127 + keyBound t.rescale + 1) (by omega) 0 0
  simp only [ExtTable.toExt, h2, inI128, decide_eq_true_eq] at h1
  omega

/-- The clause is now conditional (`inI128 d.1 → …`: the serializer only rescales what
    `decParse` / `decFromF64` returned) and `ExtOK` holds for the driver's `Ext`, for every table
    that passes the range check the driver's parser applies (`Theorems.toExt_ExtOK`,
    `Theorems.pExtEntries_ExtOK`).  A table as the harness ships it:
    `"1.5".parse::<Decimal>()` and its `rescale(2)`. -/
def tB : ExtTable :=
  { dparse := [("1.5", some (15, 1))], rescale := [((15, 1, 2), (150, 2))] }

theorem tB_ok : ExtOK tB.toExt := toExt_ExtOK tB (by decide)

/-- the default (empty) table, the one the `schema-case` command and most streams use -/
theorem empty_ok : ExtOK ({} : ExtTable).toExt := toExt_ExtOK_empty

/-- the check is not void: a table answering a 2^127 mantissa is refused by the driver's parser
    (`pExtEntries`), and its `Ext` does not satisfy `ExtOK` -/
example : ({ dparse := [("x", some ((2:Int)^127, 0))] } : ExtTable).ok = false := by decide
example : ¬ ExtOK ({ dparse := [("x", some ((2:Int)^127, 0))] } : ExtTable).toExt := by
  intro h
  have := (h.parse "x" ((2:Int)^127, 0) (by simp [ExtTable.toExt])).1
  simp [inI128] at this

/-! ## §2 `Good` and the driver's initial states -/

/-- `runSer` starts from `{ budget := budget }`; with a bounded sink `Good` fails, so the C01/C02
    composite theorems are silent about those runs (they are about the `Vec` writer only). -/
example (n : Nat) : ¬ Good { budget := some n } := fun h => by cases h.1

theorem poolClean_empty : PoolClean ({} : Pool) := ⟨by simp, by simp⟩

theorem ok_of_toBool {e : Except SerErr Unit} (h : e.toBool = true) : e = .ok () := by
  cases e <;> simp_all [Except.toBool]

/-! ## §3 serializer side, on a frozen schema -/

def nmR : Name := Name.ofFq "ns.R"
def nmE : Name := Name.ofFq "ns.E"
def nmF : Name := Name.ofFq "ns.F"

/-- the editable schema the driver is handed -/
def smB : SchemaMut := #[
  ⟨.record nmR [("a", 1), ("u", 3), ("d", 6), ("e", 7), ("f", 8)], none⟩,
  ⟨.array 2, none⟩, ⟨.long, none⟩, ⟨.union [4, 5], none⟩, ⟨.null, none⟩, ⟨.string, none⟩,
  ⟨.bytes, some (.decimal 2 10)⟩, ⟨.enum nmE ["A", "B"], none⟩,
  ⟨.fixed nmF 4, some (.decimal 1 9)⟩]

/-- what the driver runs on -/
def SB : Schema := freezeNodes smB
def nodeB : Node := .record nmR [("a", 1), ("u", 3), ("d", 6), ("e", 7), ("f", 8)]

theorem SB_eq : SB = #[nodeB, .array 2, .long, .union [4, 5], .null, .string,
    .decimal 2 10 .bytes, .enum nmE ["A", "B"], .decimal 1 9 (.fixed nmF 4)] := by
  decide +kernel

theorem SB_root : SB[0]? = some nodeB := by decide +kernel

/-- fields out of order (`u`, `d`, `e`, `f` are buffered), `d` through `rust_decimal`'s parser and
    `rescale`, `f` an integer on a decimal on `fixed`, `e` a unit variant -/
def svB : SV :=
  .struct "R" [("u", .some (.str "x")), ("d", .str "1.5"), ("e", .unitVariant "E" 1 "B"),
    ("f", .int .i32 7), ("a", .seq (some 2) [.int .i64 1, .int .i64 3])]

def vB : Value :=
  .record [.array [.long 1, .long 3], .union 1 (.string "x"), .decimal 150, .enum 1, .decimal 70]
def oB : Out := .map [(.str "a" false, .seq [.i64 1, .i64 3]), (.str "u" false, .str "x" true),
  (.str "d" false, .str "1.50" false), (.str "e" false, .str "B" false),
  (.str "f" false, .str "7.0" false)]
def bytesB : Bytes := [4, 2, 6, 0, 2, 2, 120, 4, 0, 150, 2, 0, 0, 0, 70]

theorem svB_ok : (ser tB.toExt false SB nodeB svB {}).1 = .ok () :=
  ok_of_toBool (by decide +kernel)
theorem svB_out : (ser tB.toExt false SB nodeB svB {}).2.out = bytesB := by decide +kernel

theorem vB_encode : Spec.encode SB nodeB vB = some bytesB := by decide +kernel
theorem vB_observe : Spec.observe SB nodeB vB = some oB := by rw [SB_eq]; rfl
theorem SB_fixedDecFits : Schema.fixedDecFits SB := by
  intro k n hk
  have : SB.all Node.fixedDecFits = true := by decide +kernel
  exact Array.all_getElem? this hk
theorem SB_allows : ∀ (k : Nat) (n : Node), SB[k]? = some n → Canon.nodeAllows {} n = true :=
  fun _ n _ => Canon.nodeAllows_strict n
theorem SB_ok : SchemaOK SB :=
  SchemaOK.of_checks (by decide +kernel) (by decide +kernel) (by decide +kernel) (by decide +kernel)
theorem nodeB_ok : Avro.NodeOK SB nodeB := NodeOK.of_check (by decide +kernel)

/-- `C02_sound_strong` -/
example : ∃ s' v bytes, ser tB.toExt false SB nodeB svB {} = (.ok (), s') ∧
    s'.out = ({} : SerState).out ++ bytes ∧ Good s' ∧
    (∃ N, ∀ fuel, N ≤ fuel → ∀ rest, Spec.decode SB fuel nodeB (bytes ++ rest) = some (v, rest)) ∧
    Spec.denotes (denExtOf tB.toExt) SB nodeB svB v = true :=
  C02_sound_strong tB.toExt false SB nodeB svB {} svB_ok C01glue.good_empty SB_ok nodeB_ok
    (by decide +kernel) tB_ok

/-- `C02_sound_partial` (the decidable checks hold for the `freezeNodes` output) -/
example : ∃ v bytes,
    (ser tB.toExt false SB nodeB svB { out := [], budget := none, pool := {} }).2.out
      = [] ++ bytes ∧
    (∃ N, ∀ fuel, N ≤ fuel → Spec.decode SB fuel nodeB bytes = some (v, [])) ∧
    Spec.denotes (denExtOf tB.toExt) SB nodeB svB v = true ∧
    PoolClean (ser tB.toExt false SB nodeB svB
      { out := [], budget := none, pool := {} }).2.pool :=
  C02_sound_partial tB.toExt false SB nodeB svB [] {} svB_ok poolClean_empty
    (by decide +kernel) (by decide +kernel) (by decide +kernel) (by decide +kernel)
    (by decide +kernel) (by decide +kernel) tB_ok

/-- `C01_ser_canonical_checks`, no permission asked -/
example : ∃ v bytes,
    (ser tB.toExt false SB nodeB svB { out := [], budget := none, pool := {} }).2.out
      = [] ++ bytes ∧
    Spec.encode SB nodeB v = some bytes ∧
    Spec.denotes (denExtOf tB.toExt) SB nodeB svB v = true ∧
    PoolClean (ser tB.toExt false SB nodeB svB
      { out := [], budget := none, pool := {} }).2.pool :=
  C01_ser_canonical_checks {} tB.toExt false SB nodeB svB [] {} svB_ok poolClean_empty
    (by decide +kernel) (by decide +kernel) (by decide +kernel) (by decide +kernel)
    (by decide +kernel) (by decide +kernel) tB_ok (by decide +kernel) (by decide +kernel)
    (by decide +kernel)

/-- the driver's fuel for one datum (`deOne`, Driver/Main.lean): the REAL definition
    `Avro.Impl.deFuel` (`Lemmas/DriverFuel.lean`), at the hint `.any` used throughout this file -/
abbrev driverFuel (cfg : DeConfig) (S : Schema) (depth len : Nat) : Nat :=
  deFuel cfg S .any depth len

/-- `C01_roundtrip_impl`, fully concrete, with the default deserializer configuration and the
    driver's fuel: `ser` then `de` gives `observe vB` and leaves `rest`. -/
example (rest : Bytes) :
    ∃ s', ser tB.toExt false SB nodeB svB {} = (.ok (), s') ∧ s'.out = bytesB ∧
      Spec.denotes (denExtOf tB.toExt) SB nodeB svB vB = true ∧
      de deExtModel {} SB (driverFuel {} SB 64 (bytesB ++ rest).length)
        nodeB 64 false .any { rest := s'.out ++ rest } = (.ok oB, { rest := rest }) := by
  obtain ⟨s', bytes, v, hrun, hout, henc, hden, hde⟩ :=
    C01_roundtrip_impl {} tB.toExt false SB nodeB svB {} svB_ok C01glue.good_empty SB_ok
      nodeB_ok (by decide +kernel) tB_ok (by decide +kernel) SB_allows (by decide +kernel)
      SB_fixedDecFits (by decide +kernel)
  have hb : bytes = bytesB := by
    have := svB_out
    rw [hrun] at this
    simpa [hout, bytesB] using this
  subst hb
  have hv : v = vB := encode_injective henc vB_encode
  subst hv
  have hout' : s'.out = bytesB := by simpa using hout
  refine ⟨s', hrun, hout', hden, ?_⟩
  rw [hout']
  exact hde {} 64 oB vB_observe (by decide +kernel) (by decide +kernel) _
    (by have : Spec.size vB = 18 := by decide +kernel
        rw [this]; exact Nat.le_trans (by omega) (Nat.le_max_left _ _)) rest _ rfl rfl rfl rfl

/-! ### A conforming presentation that no permission set of `C01_ser_canonical` covers

`svCanon` is syntactic: a negative integer ANYWHERE in the presentation needs `f.negInt`, and
`f.negInt` forbids a `decimal` on `bytes` ANYWHERE in the schema.  So `R { a: vec![1, -3], d: "1.5", … }`
on `SB` is outside `C01_ser_canonical` / `C01_roundtrip_impl` whatever `f`, although the bytes
written ARE the canonical encoding. -/

def svB' : SV :=
  .struct "R" [("u", .some (.str "x")), ("d", .str "1.5"), ("e", .unitVariant "E" 1 "B"),
    ("f", .int .i32 7), ("a", .seq (some 2) [.int .i64 1, .int .i64 (-3)])]
def vB' : Value :=
  .record [.array [.long 1, .long (-3)], .union 1 (.string "x"), .decimal 150, .enum 1, .decimal 70]

theorem svB'_uncovered (f : Canon.Allow) :
    ¬ (Canon.svCanon f svB' = true ∧ Canon.schemaAllows f SB = true) := by
  obtain ⟨a, b, c⟩ := f
  cases a <;> cases b <;> cases c <;> decide +kernel

/-- … and yet the serializer succeeds and writes exactly `Spec.encode` of the denoted value. -/
example : (ser tB.toExt false SB nodeB svB' {}).2.out = [4, 2, 5, 0, 2, 2, 120, 4, 0, 150, 2, 0, 0, 0, 70] ∧
    Spec.encode SB nodeB vB' = some [4, 2, 5, 0, 2, 2, 120, 4, 0, 150, 2, 0, 0, 0, 70] ∧
    Spec.denotes (denExtOf tB.toExt) SB nodeB svB' vB' = true := by
  refine ⟨by decide +kernel, by decide +kernel, by decide +kernel⟩

/-! ### per-arm theorems -/

/-- `C02_decimal_int_bytes` on `-7` at scale 2 -/
example : ∃ m : Bytes, (serIntegerAsDecimal 2 .bytes (-7) {}).2.out = ({} : SerState).out ++ Spec.lenPrefixed m ∧
    Spec.fromTwosComplementBE m = (-7) * (10 : Int) ^ 2 ∧
    ∀ S prec rest, Spec.decode S 1 (.decimal 2 prec .bytes) (Spec.lenPrefixed m ++ rest) =
      some (.decimal ((-7) * (10 : Int) ^ 2), rest) :=
  C02_decimal_int_bytes 2 (-7) {} rfl (ok_of_toBool (by decide +kernel))

/-- `C02_decimal_int_fixed` on `-7` at scale 1 on a 4-byte fixed -/
example : 4 ≤ 16 ∧ ∃ m : Bytes, m.length = 4 ∧
    (serIntegerAsDecimal 1 (.fixed nmF 4) (-7) {}).2.out = ({} : SerState).out ++ m ∧
    Spec.fromTwosComplementBE m = (-7) * (10 : Int) ^ 1 ∧
    ∀ S prec rest, Spec.decode S 1 (.decimal 1 prec (.fixed nmF 4)) (m ++ rest) =
      some (.decimal ((-7) * (10 : Int) ^ 1), rest) :=
  C02_decimal_int_fixed 1 nmF 4 (-7) {} rfl (ok_of_toBool (by decide +kernel))

/-- `C02_union_discriminant`: a `str` on `union [null, string]` of `SB`; the second disjunct is
    the one that holds (`d = 1`) -/
example :
    (unnamedLookup .str (branchNodes SB [4, 5]) = none ∧
      viaUnion SB (.union [4, 5]) .str (fun n => serStrAt tB.toExt n "x") {} = (.error .custom, {})) ∨
    (∃ d k, unnamedLookup .str (branchNodes SB [4, 5]) = some d ∧ d < [4, 5].length ∧
      [4, 5][d]? = some k ∧
      ((SB[k]? = none ∧ viaUnion SB (.union [4, 5]) .str (fun n => serStrAt tB.toExt n "x") {} =
          (.error .panic, { ({} : SerState) with out := ({} : SerState).out ++ encodeVarI64 d })) ∨
       (∃ n, SB[k]? = some n ∧ viaUnion SB (.union [4, 5]) .str (fun n => serStrAt tB.toExt n "x") {} =
          (fun n => serStrAt tB.toExt n "x") n
            { ({} : SerState) with out := ({} : SerState).out ++ encodeVarI64 d }))) :=
  C02_union_discriminant SB [4, 5] .str (fun n => serStrAt tB.toExt n "x") {} rfl

example : unnamedLookup .str (branchNodes SB [4, 5]) = some 1 := by decide +kernel

/-! ### `C02_unrepresentable_err`: a symbol the enum does not have, under `Some`, on a union -/

def SE : Schema := #[.union [1, 2], .null, .enum nmE ["A", "B"]]
def nodeE : Node := .union [1, 2]

theorem svE_denotes_nothing (ext : DenExt) (v : Value) :
    Spec.denotes ext SE nodeE (.some (.str "C")) v = false := by
  have h1 : SE[1]? = some .null := by decide
  have h2 : SE[2]? = some (.enum nmE ["A", "B"]) := by decide
  rw [denotes_some, denotes_str]
  cases v <;> try rfl
  rename_i idx y
  match idx with
  | 0 => cases y <;> simp [denotesAtLeaf, nodeE, unionBranch, h1, denotesLeaf]
  | 1 =>
    cases y <;> simp [denotesAtLeaf, nodeE, unionBranch, h2, denotesLeaf, textOf]
    rename_i i
    match i with
    | 0 => decide
    | 1 => decide
    | n + 2 => simp
  | n + 2 => simp [denotesAtLeaf, nodeE, unionBranch]

example : (ser ({} : ExtTable).toExt false SE nodeE (.some (.str "C"))
    { out := [], budget := none, pool := {} }).1 ≠ .ok () :=
  C02_unrepresentable_err ({} : ExtTable).toExt false SE nodeE (.some (.str "C")) [] {} poolClean_empty
    (by decide +kernel) (by decide +kernel) (by decide +kernel) (by decide +kernel)
    (by decide +kernel) (by decide +kernel) empty_ok (svE_denotes_nothing _)

/-! ### `C01_roundtrip_impl_bounded`: its `hlim` quantifies over EVERY value the presentation
denotes; here it is proved for `Some(vec![1i64, -3])` on `union [null, array<long>]`. -/

def SU : Schema := #[.union [1, 2], .null, .array 3, .long]
def nodeU : Node := .union [1, 2]
def svU : SV := .some (.seq (some 2) [.int .i64 1, .int .i64 (-3)])
def vU : Value := .union 1 (.array [.long 1, .long (-3)])

theorem denotes_long_int {ext : DenExt} {S : Schema} {t : IntTy} {x : Int} {v : Value}
    (h : Spec.denotes ext S .long (.int t x) v = true) : v = .long x := by
  rw [denotes_int] at h
  cases v <;> simp [denotesAtLeaf, denotesLeaf] at h
  simp [h.2]

theorem svU_denotes_only (ext : DenExt) (v : Value)
    (h : Spec.denotes ext SU nodeU svU v = true) : v = vU := by
  rw [svU, denotes_some, denotes_seq] at h
  have h1 : SU[1]? = some .null := by decide
  have h2 : SU[2]? = some (.array 3) := by decide
  have h3 : SU[3]? = some .long := by decide
  cases v <;> simp [seqDispatch, nodeU, unionBranch] at h
  rename_i idx y
  match idx with
  | 0 => simp [h1] at h
  | 1 =>
    simp [h2, nameAgrees] at h
    cases y <;> simp [h3] at h
    rename_i items
    match items with
    | [] => simp [denotesList] at h
    | [_] => simp [denotesList] at h
    | [a, b] =>
      simp only [denotesList, Bool.and_eq_true, and_true] at h
      rw [denotes_long_int h.1, denotes_long_int h.2]; rfl
    | _ :: _ :: _ :: _ => simp [denotesList] at h
  | n + 2 => simp at h

theorem SU_ok : SchemaOK SU :=
  SchemaOK.of_checks (by decide +kernel) (by decide +kernel) (by decide +kernel) (by decide +kernel)

theorem SU_fixedDecFits : Schema.fixedDecFits SU := by
  intro k n hk
  have : SU.all Node.fixedDecFits = true := by decide +kernel
  exact Array.all_getElem? this hk

example : ∃ s' bytes v o, ser ({} : ExtTable).toExt false SU nodeU svU {} = (.ok (), s') ∧
    s'.out = ({} : SerState).out ++ bytes ∧
    Spec.denotes (denExtOf ({} : ExtTable).toExt) SU nodeU svU v = true ∧ Spec.observe SU nodeU v = some o ∧
    ∀ fuel, Spec.size v * 4 + 8 ≤ fuel → ∀ rest : Bytes,
      de deExtModel { maxSeqSize := 2, allowedDepth := 2 } SU fuel nodeU 2 false .any
        { rest := bytes ++ rest } = (.ok o, { rest := rest }) :=
  C01_roundtrip_impl_bounded { negInt := true } ({} : ExtTable).toExt false
    { maxSeqSize := 2, allowedDepth := 2 } SU nodeU svU {} 2
    (ok_of_toBool (by decide +kernel)) C01glue.good_empty SU_ok (NodeOK.of_check (by decide +kernel))
    (by decide +kernel) empty_ok (by decide +kernel)
    (fun k n hk => Array.all_getElem? (p := Canon.nodeAllows { negInt := true })
      (by decide +kernel : SU.all (Canon.nodeAllows { negInt := true }) = true) hk)
    (by decide +kernel) SU_fixedDecFits (by decide +kernel)
    (fun v hv => by
      rw [svU_denotes_only _ v hv]
      exact ⟨by rfl, by decide +kernel, by decide +kernel⟩)

/-! ## §4 deserializer side, canonical input -/

/-- `C01_de_accepts_schema` on the frozen schema (decimal on bytes and on fixed, enum, union,
    array), default configuration, trailing bytes -/
example : de deExtModel {} SB (Spec.size vB * 4 + 8) nodeB 64 false .any
    { rest := bytesB ++ [9, 9] } = (.ok oB, { rest := [9, 9] }) :=
  C01_de_accepts_schema {} SB nodeB vB bytesB [9, 9] oB 64 vB_encode vB_observe SB_fixedDecFits
    (by decide +kernel) (by decide +kernel) (by decide +kernel) _ (Nat.le_refl _)
    { rest := bytesB ++ [9, 9] } rfl rfl rfl rfl

/-- `C01_de_accepts_nil`, with the exact depth and sequence limits the value needs -/
example : de deExtModel { maxSeqSize := 2, allowedDepth := 2 } SB (Spec.size vB * 4 + 8) nodeB
    ({ maxSeqSize := 2, allowedDepth := 2 } : DeConfig).allowedDepth false .any { rest := bytesB } =
      (.ok oB, { rest := [] }) :=
  C01_de_accepts_nil { maxSeqSize := 2, allowedDepth := 2 } SB nodeB vB bytesB oB vB_encode
    vB_observe (by decide +kernel) (by decide +kernel) (by decide +kernel)

/-- a map of records with a big-decimal, a duration, a float and a uuid -/
def nmM : Name := Name.ofFq "M"
def SD : Schema :=
  #[.map 1, .record nmM [("b", 2), ("t", 3), ("x", 4), ("g", 5)], .bigDecimal, .duration, .float, .uuid]
def nodeD : Node := .map 1
def vD : Value :=
  .map [("k", .record [.bigDecimal (-12345) 3, .duration 1 2 3, .float 0x3fc00000#32, .string "u"]),
        ("", .record [.bigDecimal 0 0, .duration 0 0 0, .float 0#32, .string ""])]
def bytesD : Bytes :=
  [4, 2, 107, 8, 4, 207, 199, 6, 1, 0, 0, 0, 2, 0, 0, 0, 3, 0, 0, 0, 0, 0, 192, 63, 2, 117, 0, 6, 2, 0, 0, 0, 0, 0,
   0, 0, 0, 0, 0, 0, 0, 0, 0, 0, 0, 0, 0, 0, 0]

theorem vD_encode : Spec.encode SD nodeD vD = some bytesD := by decide +kernel

/-- `C01_de_accepts` (the form with `fixedDecOk` on the value) -/
example : ∃ o, Spec.observe SD nodeD vD = some o ∧
    de deExtModel {} SD (Spec.size vD * 4 + 8) nodeD 64 false .any { rest := bytesD ++ [1] } =
      (.ok o, { rest := [1] }) := by
  obtain ⟨o, ho⟩ : ∃ o, Spec.observe SD nodeD vD = some o :=
    Option.isSome_iff_exists.1 (by rfl)
  exact ⟨o, ho, C01_de_accepts {} SD nodeD vD bytesD [1] o 64 vD_encode ho (by decide +kernel)
    (by decide +kernel) (by decide +kernel) _ (Nat.le_refl _) { rest := bytesD ++ [1] }
    rfl rfl rfl rfl⟩

/-- `C03_canonical_within_limits` -/
example : ∃ fuelL, Spec.decodeL Limits.impl SB fuelL nodeB (bytesB ++ [9, 9]) = some (vB, [9, 9]) :=
  C03_canonical_within_limits SB nodeB vB bytesB [9, 9] oB vB_encode vB_observe (by decide +kernel)

/-! ## §5 deserializer side, a NON-canonical layout -/

def S3 : Schema :=
  #[.record nmR [("xs", 1), ("n", 3), ("m", 4)], .array 2, .union [5, 6], .long, .map 3, .null,
    .string]
def node3 : Node := .record nmR [("xs", 1), ("n", 3), ("m", 4)]

def lay3 : Bytes :=
  [0x02, 0x02, 0x02, 0x61,            -- block of 1: union branch 1, "a"
   0x03, 0x88, 0x00,                  -- block of -2 items, byte size 4 written on two bytes
   0x00, 0x02, 0x02, 0x62,            -- union 0 null; union 1 "b"
   0x80, 0x00,                        -- end marker on two bytes
   0x8A, 0x80, 0x00,                  -- long 5 on three bytes
   0x02, 0x02, 0x6B, 0x01, 0x00]      -- map: one block {"k": -1}

def v3 : Value :=
  .record [.array [.union 1 (.string "a"), .union 0 .null, .union 1 (.string "b")], .long 5,
    .map [("k", .long (-1))]]

def o3 : Out :=
  .map [(.str "xs" false, .seq [.str "a" true, .unit, .str "b" true]), (.str "n" false, .i64 5),
    (.str "m" false, .map [(.str "k" true, .i64 (-1))])]

set_option maxRecDepth 8000 in
theorem lay3_decodes : Spec.decode S3 30 node3 (lay3 ++ [7, 7]) = some (v3, [7, 7]) := by rfl
set_option maxRecDepth 8000 in
theorem lay3_decodes_nil : Spec.decode S3 30 node3 lay3 = some (v3, []) := by rfl
set_option maxRecDepth 8000 in
theorem lay3_decodesL :
    Spec.decodeL Limits.impl S3 30 node3 (lay3 ++ [7, 7]) = some (v3, [7, 7]) := by rfl
theorem v3_observe : Spec.observe S3 node3 v3 = some o3 := by rfl
theorem v3_canonical : Spec.encode S3 node3 v3 =
    some [0x06, 0x02, 0x02, 0x61, 0x00, 0x02, 0x02, 0x62, 0x00, 0x0A, 0x02, 0x02, 0x6B, 0x01, 0x00] := by
  decide +kernel

/-- the layout is nobody's canonical encoding -/
theorem lay3_not_canonical : ∀ v, Spec.encode S3 node3 v ≠ some lay3 :=
  not_canonical_of_decode (v0 := v3) 30 lay3_decodes_nil (by rw [v3_canonical]; decide +kernel)

/-- `C03_de_refines_spec`: every hypothesis (10-byte varints, 16-byte decimals, depth, `maxSeqSize`)
    holds on this non-canonical layout, with the tightest limits -/
theorem lay3_de : de deExtModel { maxSeqSize := 3, allowedDepth := 3 } S3 (Spec.size v3 * 4 + 8) node3 3
    false .any { rest := lay3 ++ [7, 7] } = (.ok o3, { rest := [7, 7] }) :=
  C03_de_refines_spec { maxSeqSize := 3, allowedDepth := 3 } S3 node3 v3 (lay3 ++ [7, 7]) [7, 7] o3
    3 30 30 lay3_decodes v3_observe (by rw [lay3_decodesL]; rfl) (by decide +kernel)
    (by decide +kernel) _ (Nat.le_refl _) _ rfl rfl rfl rfl

/-- `C03_de_accepts_impl_layouts` -/
example : de deExtModel {} S3 (3 * Spec.size v3) node3 64 false .any { rest := lay3 ++ [7, 7] } =
    (.ok o3, { rest := [7, 7] }) :=
  C03_de_accepts_impl_layouts {} S3 node3 v3 (lay3 ++ [7, 7]) [7, 7] o3 64 30 lay3_decodesL
    v3_observe (by decide +kernel) (by decide +kernel) _ (Nat.le_refl _) _ rfl rfl rfl rfl

/-- `C03_de_sound` on that run -/
example : ∃ v fuelS,
    Spec.decodeL Limits.impl S3 fuelS node3 ({ rest := lay3 ++ [7, 7] } : RState).rest =
      some (v, ({ rest := [7, 7] } : RState).rest) ∧
    Spec.observe S3 node3 v = some o3 ∧
    ({ rest := [7, 7] } : RState) =
      { ({ rest := lay3 ++ [7, 7] } : RState) with rest := ({ rest := [7, 7] } : RState).rest } :=
  C03_de_sound { maxSeqSize := 3, allowedDepth := 3 } S3 node3 3 _ _ _ o3 rfl rfl rfl lay3_de

/-- `C03_de_rejects_invalid` on that run -/
example : ∃ v fuelS,
    Spec.decode S3 fuelS node3 ({ rest := lay3 ++ [7, 7] } : RState).rest =
      some (v, ({ rest := [7, 7] } : RState).rest) ∧
    Spec.observe S3 node3 v = some o3 :=
  C03_de_rejects_invalid { maxSeqSize := 3, allowedDepth := 3 } S3 node3 3 _ _ _ o3 rfl rfl rfl
    lay3_de

/-- `C03_decodeL_impl_sub_spec`, `C03_decodeL_implStrict_sub_spec`, `C03_decodeL_mono`,
    `C03_decodeL_impl_agrees`, `C03_decodeL_spec` on the layout -/
example : Spec.decode S3 30 node3 (lay3 ++ [7, 7]) = some (v3, [7, 7]) :=
  C03_decodeL_impl_sub_spec S3 30 node3 _ _ lay3_decodesL
example : Spec.decode S3 30 node3 (lay3 ++ [7, 7]) = some (v3, [7, 7]) :=
  C03_decodeL_implStrict_sub_spec S3 30 node3 _ _ lay3_decodesL
example : Spec.decodeL Limits.specLax S3 99 node3 (lay3 ++ [7, 7]) = some (v3, [7, 7]) :=
  C03_decodeL_mono Limits.impl_le_specLax S3 (by decide) lay3_decodesL
example : (v3, [7, 7]) = (v3, ([7, 7] : Bytes)) :=
  C03_decodeL_impl_agrees S3 30 30 node3 _ _ _ lay3_decodesL lay3_decodes
example : Spec.decodeL Limits.spec S3 30 node3 (lay3 ++ [7, 7]) = some (v3, [7, 7]) := by
  rw [C03_decodeL_spec]; exact lay3_decodes

/-- a decimal (`bytes`) written sign-extended on the full 16 bytes allowed (canonical: `[2, 1]`),
    inside a union whose index is written on two bytes: again every hypothesis holds -/
def S16 : Schema := #[.union [1, 2], .null, .decimal 0 5 .bytes]
def lay16 : Bytes := [0x82, 0x00, 0x20] ++ List.replicate 15 0 ++ [1]

set_option maxRecDepth 8000 in
theorem lay16_decodes : Spec.decode S16 5 (.union [1, 2]) lay16 = some (.union 1 (.decimal 1), []) := by
  rfl
theorem lay16_canonical : Spec.encode S16 (.union [1, 2]) (.union 1 (.decimal 1)) = some [2, 2, 1] := by
  decide +kernel

set_option maxRecDepth 8000 in
example : de deExtModel {} S16 16 (.union [1, 2]) 64 false .any { rest := lay16 } =
    (.ok (.str "1" false), { rest := [] }) :=
  C03_de_refines_spec {} S16 (.union [1, 2]) (.union 1 (.decimal 1)) lay16 [] (.str "1" false) 64 5 5
    lay16_decodes (by rfl) (by rfl) (by decide +kernel) (by decide +kernel) 16 (by decide +kernel)
    { rest := lay16 } rfl rfl rfl rfl

/-- `Limits.impl` and `Limits.implStrict` are the same term (so the former
    `C03_block_sizes_checked`, an implication between the two, was `P → P`; it has been replaced by
    a statement about the deserializer, instantiated below). -/
example : Limits.impl = Limits.implStrict := rfl

/-! ### invalid input: the union index in the SECOND block (negative count + byte size) is out of
range -/

def SI : Schema := #[.array 1, .union [2, 3], .null, .string]
def nodeI : Node := .array 1
/-- block of one `null`; block of -1 item with byte size 1 whose union index is 2 -/
def badI : Bytes := [0x02, 0x00, 0x01, 0x02, 0x04, 0x00]

theorem badI_invalid : ∀ fuelS, Spec.decode SI fuelS nodeI badI = none := by
  have hh1 : decodeBlockHeader badI = some (1, [0x00, 0x01, 0x02, 0x04, 0x00]) := by decide +kernel
  have hh2 : decodeBlockHeader [0x01, 0x02, 0x04, 0x00] = some (1, [0x04, 0x00]) := by
    decide +kernel
  have hl0 : decodeLen [0x00, 0x01, 0x02, 0x04, 0x00] = some (0, [0x01, 0x02, 0x04, 0x00]) := by
    decide +kernel
  have hl2 : decodeLen [0x04, 0x00] = some (2, [0x00]) := by decide +kernel
  have h1 : SI[1]? = some (.union [2, 3]) := by decide
  have h2 : SI[2]? = some .null := by decide
  intro f
  rcases f with _ | _ | _ | _ | _ | f <;>
    simp [Spec.decode, nodeI, nodeOf, h1, h2, decodeBlocks, decodeItems, hh1, hh2, hl0, hl2]

/-- with the index repaired the same layout is valid (so `badI` is a single-point corruption) -/
example : Spec.decode SI 9 nodeI [0x02, 0x00, 0x01, 0x02, 0x00, 0x00] =
    some (.array [.union 0 .null, .union 0 .null], []) := by rfl

/-- `C03_block_sizes_checked`: a first block with count -1 and byte size -1 (then a valid item
    and the end marker) is refused by the real `de`, at any fuel -/
example (fuel : Nat) (o : Out) :
    (de deExtModel {} SI fuel nodeI 64 false .any { rest := [0x01, 0x01, 0x00, 0x00] }).1 ≠ .ok o :=
  C03_block_sizes_checked {} SI nodeI 1 (.inl rfl) 64 fuel { rest := [0x01, 0x01, 0x00, 0x00] }
    rfl rfl rfl (-1) (-1) [0x01, 0x00, 0x00] [0x00, 0x00] (by decide +kernel) (by decide)
    (by decide +kernel) (by decide) o

/-- … while the same block with byte size 1 is accepted: the sign of the size is what is checked -/
example : Spec.decode SI 9 nodeI [0x01, 0x02, 0x00, 0x00] = some (.array [.union 0 .null], []) := by
  rfl

/-- `C03_invalid_is_err` -/
example (o : Out) :
    (de deExtModel {} SI (driverFuel {} SI 64 badI.length) nodeI 64 false .any { rest := badI }).1
      ≠ .ok o :=
  C03_invalid_is_err {} SI nodeI 64 _ { rest := badI } rfl rfl rfl badI_invalid o

/-- `C03_invalid_is_err_class`, at the driver's fuel for this input -/
example :
    (de deExtModel {} SI (driverFuel {} SI 64 badI.length) nodeI 64 false .any { rest := badI }).1
      = .error .custom ∨
    (de deExtModel {} SI (driverFuel {} SI 64 badI.length) nodeI 64 false .any { rest := badI }).1
      = .error .io :=
  C03_invalid_is_err_class {} SI (by decide +kernel) 0 nodeI (by decide +kernel) 64 _
    (by decide +kernel) { rest := badI } rfl rfl rfl badI_invalid

/-! ## §6 the fuel hypotheses and the driver's fuel -/

/-- The fuel hypotheses of `C01_de_accepts*` / `C03_de_refines_spec` (`size v * 4 + 8 ≤ fuel`) can
    EXCEED what the driver supplies: 100 arrays of 100 `null`s take 303 bytes, the driver gives
    10 072 units, the theorem asks for 41 232.  (Harmless: the driver's fuel is `≥ fuelBound`,
    see `C03_de_refines_spec_at_driverFuel` below.) -/
def SN : Schema := #[.array 1, .array 2, .null]
def vN : Value := .array (List.replicate 100 (.array (List.replicate 100 .null)))
def cfgN : DeConfig := { maxSeqSize := 100, allowedDepth := 2 }

theorem vN_enc_len : (Spec.encode SN (.array 1) vN).map List.length = some 303 := by decide +kernel

example : driverFuel cfgN SN 2 303 < Spec.size vN * 4 + 8 := by decide +kernel
example : Spec.depthOf vN ≤ 2 ∧ Spec.maxLen vN ≤ cfgN.maxSeqSize := by decide +kernel

/-- The gap is bridged by C04: above `fuelBound` the fuel is irrelevant, so for a root node of the
    schema the fuel hypothesis of the acceptance theorems can be replaced by `fuelBound ≤ fuel`. -/
theorem de_fuel_bridge (cfg : DeConfig) (S : Schema) (k : Nat) (node : Node)
    (hk : S[k]? = some node) (depth fuel fuel' : Nat)
    (hf : fuelBound cfg S .any depth ≤ fuel) (hf' : fuelBound cfg S .any depth ≤ fuel') :
    de deExtModel cfg S fuel node depth false .any = de deExtModel cfg S fuel' node depth false .any := by
  rw [C04_fuel_independent_root deExtModel cfg S fuel k node hk depth false .any hf,
    C04_fuel_independent_root deExtModel cfg S fuel' k node hk depth false .any hf']

theorem C03_de_refines_spec_above_bound (cfg : DeConfig) (S : Schema) (k : Nat) (node : Node)
    (hk : S[k]? = some node) (v : Spec.Value)
    (bytes rest : Bytes) (o : Out) (depth fuelS fuelL : Nat)
    (hdec : Spec.decode S fuelS node bytes = some (v, rest))
    (hobs : Spec.observe S node v = some o)
    (hlim : (Spec.decodeL Limits.impl S fuelL node bytes).isSome = true)
    (hdepth : Spec.depthOf v ≤ depth) (hseq : Spec.maxLen v ≤ cfg.maxSeqSize)
    (fuel : Nat) (hfuel : fuelBound cfg S .any depth ≤ fuel)
    (s : RState) (hs : s.isSlice = true) (hl : s.limit = none) (ha : s.avail = 0)
    (hr : s.rest = bytes) :
    de deExtModel cfg S fuel node depth false .any s = (.ok o, { s with rest := rest }) := by
  rw [de_fuel_bridge cfg S k node hk depth fuel (max fuel (Spec.size v * 4 + 8)) hfuel
    (Nat.le_trans hfuel (Nat.le_max_left _ _))]
  exact C03_de_refines_spec cfg S node v bytes rest o depth fuelS fuelL hdec hobs hlim hdepth hseq
    _ (Nat.le_max_right _ _) s hs hl ha hr

/-- The driver's fuel (`Avro.Impl.deFuel`) is above `fuelBound`, unconditionally (it used to be
    only when the widest record has at most `8 * S.size + 60` fields). -/
theorem driverFuel_ge_fuelBound (cfg : DeConfig) (S : Schema) (depth len : Nat) :
    fuelBound cfg S .any depth ≤ driverFuel cfg S depth len :=
  fuelBound_le_deFuel cfg S .any depth len

/-- Hence `C03_de_refines_spec` speaks about the driver's run, whatever the size of the value. -/
theorem C03_de_refines_spec_at_driverFuel (cfg : DeConfig) (S : Schema) (k : Nat) (node : Node)
    (hk : S[k]? = some node) (v : Spec.Value)
    (bytes rest : Bytes) (o : Out) (depth fuelS fuelL : Nat)
    (hdec : Spec.decode S fuelS node bytes = some (v, rest))
    (hobs : Spec.observe S node v = some o)
    (hlim : (Spec.decodeL Limits.impl S fuelL node bytes).isSome = true)
    (hdepth : Spec.depthOf v ≤ depth) (hseq : Spec.maxLen v ≤ cfg.maxSeqSize)
    (s : RState) (hs : s.isSlice = true) (hl : s.limit = none) (ha : s.avail = 0)
    (hr : s.rest = bytes) :
    de deExtModel cfg S (driverFuel cfg S depth s.rest.length) node depth false .any s
      = (.ok o, { s with rest := rest }) :=
  C03_de_refines_spec_above_bound cfg S k node hk v bytes rest o depth fuelS fuelL hdec hobs hlim
    hdepth hseq _ (driverFuel_ge_fuelBound cfg S depth _) s hs hl ha hr

/-- The historical formula alone (`deFuelBase`, what the driver passed before) was not: a record
    with 200 fields of one shared type has `S.size = 2`; at the default depth 64 with
    `max_seq_size = 0` that formula gives 9 536 on the empty input and `fuelBound` is 13 060.
    The driver's fuel is now the larger of the two. -/
def SW : Schema :=
  #[.record nmR ((List.range 200).map fun i => (toString i, 1)), .null]

example : deFuelBase { maxSeqSize := 0 } SW 64 0 < fuelBound { maxSeqSize := 0 } SW .any 64 ∧
    driverFuel { maxSeqSize := 0 } SW 64 0 = fuelBound { maxSeqSize := 0 } SW .any 64 := by
  decide +kernel

/-- On the nested-`null` instance the first component is the larger one. -/
example : fuelBound cfgN SN .any 2 ≤ driverFuel cfgN SN 2 303 ∧
    driverFuel cfgN SN 2 303 = deFuelBase cfgN SN 2 303 := by decide +kernel

/-- `C01_de_accepts` at the driver's fuel (root node of the schema), whatever the size of `v`. -/
theorem C01_de_accepts_at_driverFuel (cfg : DeConfig) (S : Schema) (k : Nat) (n : Node)
    (hk : S[k]? = some n) (v : Spec.Value) (enc rest : Bytes) (o : Out) (depth : Nat)
    (henc : Spec.encode S n v = some enc) (hobs : Spec.observe S n v = some o)
    (hfix : Spec.fixedDecOk S n v = true)
    (hdepth : Spec.depthOf v ≤ depth) (hseq : Spec.maxLen v ≤ cfg.maxSeqSize)
    (s : RState) (hs : s.isSlice = true) (hl : s.limit = none) (ha : s.avail = 0)
    (hr : s.rest = enc ++ rest) :
    de deExtModel cfg S (driverFuel cfg S depth s.rest.length) n depth false .any s
      = (.ok o, { s with rest := rest }) := by
  rw [de_fuel_bridge cfg S k n hk depth _ (max (driverFuel cfg S depth s.rest.length) (Spec.size v * 4 + 8))
    (driverFuel_ge_fuelBound cfg S depth _)
    (Nat.le_trans (driverFuel_ge_fuelBound cfg S depth _) (Nat.le_max_left _ _))]
  exact C01_de_accepts cfg S n v enc rest o depth henc hobs hfix hdepth hseq _ (Nat.le_max_right _ _)
    s hs hl ha hr

/-- and the run the theorem's fuel hypothesis did not cover IS covered: the driver's model accepts
    the 100 × 100 `null`s with its 10 072 units (the theorem's own hypothesis asks for 41 232). -/
example : ∃ enc o, Spec.encode SN (.array 1) vN = some enc ∧ enc.length = 303 ∧
    de deExtModel cfgN SN (driverFuel cfgN SN 2 303) (.array 1) 2 false .any { rest := enc }
      = (.ok o, { rest := [] }) := by
  obtain ⟨enc, henc⟩ : ∃ enc, Spec.encode SN (.array 1) vN = some enc :=
    Option.isSome_iff_exists.1 (by decide +kernel)
  obtain ⟨o, ho⟩ : ∃ o, Spec.observe SN (.array 1) vN = some o :=
    Option.isSome_iff_exists.1 (by decide +kernel)
  have hlen : enc.length = 303 := by
    have := vN_enc_len; rw [henc] at this; exact Option.some.inj this
  have := C01_de_accepts_at_driverFuel cfgN SN 0 (.array 1) rfl vN enc [] o 2 henc ho
    (by decide +kernel) (by decide +kernel) (by decide +kernel) { rest := enc ++ [] } rfl rfl rfl rfl
  simp only [List.append_nil] at this
  rw [hlen] at this
  exact ⟨enc, o, henc, hlen, this⟩

end Avro.NonVacuityA
