import AvroModel.Lemmas.Reader
/-
C11: deserializing from a slice and from a buffered reader delivering the same bytes give the
same outcome (same value, or an error in both cases), whatever the chunk schedule of the reader;
on success both consume the same number of bytes.
-/
namespace Avro.Theorems
open Avro Avro.Impl

/-- Correspondence between a reader state `r` and a slice state `sl`: same remaining bytes.
    Nothing is assumed on `r.avail` (beyond well-formedness), `r.sched`, `r.lastChunk`: the chunk
    schedule is arbitrary. -/
structure Sim (r sl : RState) : Prop where
  reader : r.isSlice = false
  slice : sl.isSlice = true
  rest : r.rest = sl.rest
  avail : r.avail ≤ r.rest.length
  limit : r.limit = sl.limit

/-- Outcome equivalence: both succeed with related values and corresponding states, or both fail
    (the error classes may differ: `custom` for the slice where the reader says `io`). -/
def OutEq {α β : Type} (R : α → β → Prop)
    (x : Except DeErr α × RState) (y : Except DeErr β × RState) : Prop :=
  match x, y with
  | (.ok a, r'), (.ok b, sl') => R a b ∧ Sim r' sl'
  | (.error _, _), (.error _, _) => True
  | _, _ => False

theorem Sim.wf_reader {r sl : RState} (h : Sim r sl) : r.WF := fun _ => h.avail
theorem Sim.wf_slice {r sl : RState} (h : Sim r sl) : sl.WF := by
  intro hs; rw [h.slice] at hs; cases hs

theorem Sim.adv {r sl r' sl' : RState} {k : Nat} (h : Sim r sl)
    (hr : Adv k r r') (hs : Adv k sl sl') : Sim r' sl' where
  reader := hr.isSlice.trans h.reader
  slice := hs.isSlice.trans h.slice
  rest := by rw [hr.rest, hs.rest, h.rest]
  avail := hr.wf (hr.isSlice.trans h.reader)
  limit := by rw [hr.limit, hs.limit, h.limit]

theorem Sim.eff {r sl : RState} (h : Sim r sl) : r.eff = sl.eff := by
  simp [RState.eff, h.rest, h.limit]

theorem OutEq.ok {α β : Type} {R : α → β → Prop} {a : α} {b : β} {r' sl' : RState}
    (h1 : R a b) (h2 : Sim r' sl') : OutEq R (.ok a, r') (.ok b, sl') := ⟨h1, h2⟩

theorem OutEq.error {α β : Type} {R : α → β → Prop} {e e' : DeErr} {r' sl' : RState} :
    OutEq R (.error e, r') (.error e', sl') := trivial

/-- On success both sides have consumed the same number of bytes. -/
theorem OutEq.consumed {α β : Type} {R : α → β → Prop} {r sl r' sl' : RState} {a : α} {b : β}
    (hsim : Sim r sl) (h : OutEq R (.ok a, r') (.ok b, sl')) :
    r.rest.length - r'.rest.length = sl.rest.length - sl'.rest.length := by
  rw [hsim.rest, h.2.rest]

/-- Generic step: two runs characterised by the same function of the remaining bytes. -/
theorem outEq_of_adv {α β : Type} {R : α → β → Prop} {r sl : RState} (hsim : Sim r sl)
    {x : Except DeErr α × RState} {y : Except DeErr β × RState} {a : α} {b : β} {k : Nat}
    (hx : ∃ r', x = (.ok a, r') ∧ Adv k r r') (hy : ∃ sl', y = (.ok b, sl') ∧ Adv k sl sl')
    (hab : R a b) : OutEq R x y := by
  obtain ⟨r', rfl, hr⟩ := hx
  obtain ⟨sl', rfl, hs⟩ := hy
  exact ⟨hab, hsim.adv hr hs⟩

theorem outEq_of_err {α β : Type} {R : α → β → Prop}
    {x : Except DeErr α × RState} {y : Except DeErr β × RState}
    (hx : ∃ e r', x = (.error e, r')) (hy : ∃ e sl', y = (.error e, sl')) : OutEq R x y := by
  obtain ⟨_, _, rfl⟩ := hx
  obtain ⟨_, _, rfl⟩ := hy
  trivial

/-! ### 1. `readSome`, `readExact` -/

/-- One `read` call: both succeed; the slice returns everything allowed, the reader a prefix of
    it that is empty only if the slice's is (its size depends on the chunk schedule). -/
theorem C11_readSome (k : Nat) (r sl : RState) (h : Sim r sl) :
    ∃ m m' r' sl', readSome k r = (.ok (r.rest.take m), r') ∧
      readSome k sl = (.ok (r.rest.take m'), sl') ∧
      m' = min (r.lim k) r.rest.length ∧ m ≤ m' ∧ (m = 0 ↔ m' = 0) ∧
      Adv m r r' ∧ Adv m' sl sl' := by
  obtain ⟨m, r', h1, h2, h3, h4, h5⟩ := readSome_spec k r h.wf_reader
  obtain ⟨m', sl', g1, g2, g3, g4, g5⟩ := readSome_spec k sl h.wf_slice
  have hlim : sl.lim k = r.lim k := by simp [RState.lim, h.limit]
  have hlen : sl.rest.length = r.rest.length := by rw [h.rest]
  have hm' : m' = min (r.lim k) r.rest.length := by
    have hf : fillBuf sl = (.ok sl.rest, sl) := by simp [fillBuf, h.slice]
    rw [readSome_eq, hf, hlim] at g1
    by_cases hk : r.lim k = 0
    · have : m' = 0 := by omega
      omega
    · simp only [hk, if_false, Prod.mk.injEq, Except.ok.injEq] at g1
      have := congrArg List.length g1.1
      simp only [List.length_take, ← h.rest] at this
      omega
  refine ⟨m, m', r', sl', h1, by rw [h.rest]; exact g1, hm', by omega, ?_, h5, g5⟩
  rw [hlim, ← h.rest] at g4
  constructor
  · intro hm0
    by_cases hk : r.lim k = 0
    · omega
    · by_cases hne : r.rest = []
      · rw [hne] at hm'; simp at hm'; exact hm'
      · have := h4 hk hne; omega
  · intro hm0; omega

/-- A one-byte `read` is the same on both back-ends. -/
theorem C11_readSome_one (r sl : RState) (h : Sim r sl) :
    OutEq (· = ·) (readSome 1 r) (readSome 1 sl) := by
  obtain ⟨m, m', r', sl', h1, h2, h3, h4, h5, h6, h7⟩ := C11_readSome 1 r sl h
  have : m = m' := by
    have : r.lim 1 ≤ 1 := by unfold RState.lim; cases r.limit <;> simp only <;> omega
    omega
  subst this
  rw [h1, h2]
  exact ⟨rfl, h.adv h6 h7⟩

/-- `read_exact k`: the same `k` bytes on both sides, or an error on both sides, for every chunk
    schedule. -/
theorem C11_readExact (k : Nat) (r sl : RState) (h : Sim r sl) :
    OutEq (· = ·) (readExact k r) (readExact k sl) := by
  have hr := readExact_spec k r h.wf_reader
  have hs := readExact_spec k sl h.wf_slice
  rw [← h.eff, ← h.rest] at hs
  by_cases hk : k ≤ r.eff
  · exact outEq_of_adv h (hr.1 hk) (hs.1 hk) rfl
  · exact outEq_of_err (hr.2 (by omega)) (hs.2 (by omega))

/-- Explicit form of `C11_readExact`: what is returned. -/
theorem C11_readExact_value (k : Nat) (r sl : RState) (h : Sim r sl) (hk : k ≤ r.eff) :
    ∃ r' sl', readExact k r = (.ok (r.rest.take k), r') ∧
      readExact k sl = (.ok (r.rest.take k), sl') ∧ Sim r' sl' := by
  have hr := readExact_spec k r h.wf_reader
  have hs := readExact_spec k sl h.wf_slice
  rw [← h.eff, ← h.rest] at hs
  obtain ⟨r', e1, a1⟩ := hr.1 hk
  obtain ⟨sl', e2, a2⟩ := hs.1 hk
  exact ⟨r', sl', e1, e2, h.adv a1 a2⟩

/-! ### 2. `readVarint` -/

/-- `read_varint` for every integer type and every chunk schedule (down to one byte at a time):
    same value and corresponding states, or an error on both sides.
    `r.limit = none`: the varint fast path of the reader by-passes the `Take` accounting that its
    byte-wise path goes through, so under a `Take` the model's `readVarint` is not schedule
    independent; the deserializer never calls it there (it uses `varintProcessor`). -/
theorem C11_readVarint (t : VarTy) (r sl : RState) (h : Sim r sl) (hlim : r.limit = none) :
    OutEq (· = ·) (readVarint t r) (readVarint t sl) := by
  have hr := readVarint_spec t r h.wf_reader hlim
  have hs := readVarint_spec t sl h.wf_slice (by rw [← h.limit, hlim])
  rw [← h.rest] at hs
  cases hd : decodeVar t r.rest with
  | none => exact outEq_of_err (hr.2 hd) (hs.2 hd)
  | some p =>
    obtain ⟨v, k⟩ := p
    exact outEq_of_adv h (hr.1 v k hd) (hs.1 v k hd) rfl

/-- The hypothesis `r.limit = none` of `C11_readVarint` cannot be dropped: under a `Take` of 0,
    on input `80 01` delivered one byte at a time, the slice decodes 64 and the reader fails. -/
example :
    (readVarint .i64
        { isSlice := false, rest := [0x80, 0x01], avail := 0, sched := [1], limit := some 0 }).1
      = .error .io ∧
    (readVarint .i64 { isSlice := true, rest := [0x80, 0x01], limit := some 0 }).1 = .ok 64 := by
  constructor <;> rfl

/-- Explicit form: both are `decode_var` on the remaining input. -/
theorem C11_readVarint_value (t : VarTy) (r sl : RState) (h : Sim r sl) (hlim : r.limit = none)
    (v : Int) (k : Nat) (hd : decodeVar t r.rest = some (v, k)) :
    ∃ r' sl', readVarint t r = (.ok v, r') ∧ readVarint t sl = (.ok v, sl') ∧
      r'.rest = r.rest.drop k ∧ Sim r' sl' := by
  have hr := readVarint_spec t r h.wf_reader hlim
  have hs := readVarint_spec t sl h.wf_slice (by rw [← h.limit, hlim])
  rw [← h.rest] at hs
  obtain ⟨r', e1, a1⟩ := hr.1 v k hd
  obtain ⟨sl', e2, a2⟩ := hs.1 v k hd
  exact ⟨r', sl', e1, e2, a1.rest, h.adv a1 a2⟩

/-! ### 3. `readSlice` -/

/-- `read_slice n`: same bytes (borrowed from the slice, copied from the reader). -/
theorem C11_readSlice (n : Nat) (r sl : RState) (h : Sim r sl) (hlim : r.limit = none)
    (hn : n ≤ r.maxAlloc) :
    OutEq (fun a b => a.1 = b.1 ∧ a.2 = false ∧ b.2 = true) (readSlice n r) (readSlice n sl) := by
  have hr := readSlice_spec n r h.wf_reader hlim (fun _ _ => hn)
  have hs := readSlice_spec n sl h.wf_slice (by rw [← h.limit, hlim])
    (fun hsl => by rw [h.slice] at hsl; cases hsl)
  rw [← h.rest] at hs
  by_cases hk : n ≤ r.rest.length
  · exact outEq_of_adv h (hr.1 hk) (hs.1 hk) ⟨rfl, h.reader, h.slice⟩
  · exact outEq_of_err (hr.2 (by omega)) (hs.2 (by omega))

/-! ### 4. `skipBytes` -/

theorem C11_skipBytes (n : Nat) (r sl : RState) (h : Sim r sl) (hlim : r.limit = none) :
    OutEq (· = ·) (skipBytes n r) (skipBytes n sl) := by
  have hr := skipBytes_spec n r h.wf_reader hlim
  have hs := skipBytes_spec n sl h.wf_slice (by rw [← h.limit, hlim])
  rw [← h.rest] at hs
  by_cases hk : n ≤ r.rest.length
  · exact outEq_of_adv h (hr.1 hk) (hs.1 hk) rfl
  · exact outEq_of_err (hr.2 (by omega)) (hs.2 (by omega))

/-! ### 5. Lifting to the datum deserializer -/

/-- State correspondence for the deserializer: `Sim`, the reader may allocate what is left
    (`max_alloc` is only consulted by the reader), and — when `p` — no `Take` is in place. -/
structure SimD (p : Bool) (r sl : RState) : Prop where
  sim : Sim r sl
  alloc : r.rest.length ≤ r.maxAlloc
  nolimit : p = true → r.limit = none

def OutEqD (p : Bool) {α β : Type} (R : α → β → Prop)
    (x : Except DeErr α × RState) (y : Except DeErr β × RState) : Prop :=
  match x, y with
  | (.ok a, r'), (.ok b, sl') => R a b ∧ SimD p r' sl'
  | (.error _, _), (.error _, _) => True
  | _, _ => False

/-- `m` on the reader and `m'` on the slice give equivalent outcomes from corresponding states
    (`p`/`q`: whether a `Take` limit may be present before/after). -/
def RelD (p q : Bool) {α β : Type} (R : α → β → Prop) (m : DeM α) (m' : DeM β) : Prop :=
  ∀ r sl, SimD p r sl → OutEqD q R (m r) (m' sl)

theorem SimD.adv {p : Bool} {r sl r' sl' : RState} {k : Nat} (h : SimD p r sl)
    (hr : Adv k r r') (hs : Adv k sl sl') : SimD p r' sl' where
  sim := h.sim.adv hr hs
  alloc := by rw [hr.length, hr.maxAlloc]; have := h.alloc; omega
  nolimit := fun hp => by rw [hr.limit, h.nolimit hp]; rfl

theorem SimD.weaken {p : Bool} {r sl : RState} (h : SimD p r sl) : SimD false r sl :=
  ⟨h.sim, h.alloc, fun hp => by cases hp⟩

theorem bind_eq {α β : Type} (m : DeM α) (f : α → DeM β) (s : RState) :
    (m >>= f) s = match m s with
      | (.ok a, s') => f a s'
      | (.error e, s') => (.error e, s') := rfl

theorem RelD.pure {p : Bool} {α β : Type} {R : α → β → Prop} {a : α} {b : β} (h : R a b) :
    RelD p p R (pure a) (pure b) := fun _ _ hs => ⟨h, hs⟩

theorem RelD.fail {p q : Bool} {α β : Type} {R : α → β → Prop} {e e' : DeErr} :
    RelD p q R (DeM.fail e) (DeM.fail e') := fun _ _ _ => trivial

theorem RelD.bind {p q w : Bool} {α β γ δ : Type} {R : α → β → Prop} {R' : γ → δ → Prop}
    {m : DeM α} {m' : DeM β} {f : α → DeM γ} {f' : β → DeM δ}
    (h1 : RelD p q R m m') (h2 : ∀ a b, R a b → RelD q w R' (f a) (f' b)) :
    RelD p w R' (m >>= f) (m' >>= f') := by
  intro r sl hs
  have h := h1 r sl hs
  rw [bind_eq, bind_eq]
  rcases hm : m r with ⟨(e | a), r'⟩ <;> rcases hm' : m' sl with ⟨(e' | b), sl'⟩ <;>
    rw [hm, hm'] at h
  · trivial
  · exact h.elim
  · exact h.elim
  · exact h2 a b h.1 r' sl' h.2

theorem RelD.mono {p q : Bool} {α β : Type} {R R' : α → β → Prop} {m : DeM α} {m' : DeM β}
    (h : RelD p q R m m') (hR : ∀ a b, R a b → R' a b) : RelD p q R' m m' := by
  intro r sl hs
  have h := h r sl hs
  rcases hm : m r with ⟨(e | a), r'⟩ <;> rcases hm' : m' sl with ⟨(e' | b), sl'⟩ <;>
    rw [hm, hm'] at h
  · trivial
  · exact h.elim
  · exact h.elim
  · exact ⟨hR a b h.1, h.2⟩

/-- a computation that is fine under a `Take` is fine without -/
theorem RelD.of_false {p q : Bool} {α β : Type} {R : α → β → Prop} {m : DeM α} {m' : DeM β}
    (h : RelD false q R m m') : RelD p q R m m' := fun r sl hs => h r sl hs.weaken

theorem relD_of_spec {p : Bool} {α β : Type} {R : α → β → Prop} {m : DeM α} {m' : DeM β}
    (h : ∀ r sl, SimD p r sl →
      (∃ a b k r' sl', m r = (.ok a, r') ∧ m' sl = (.ok b, sl') ∧ R a b ∧ Adv k r r' ∧ Adv k sl sl') ∨
      ((∃ e r', m r = (.error e, r')) ∧ (∃ e sl', m' sl = (.error e, sl')))) :
    RelD p p R m m' := by
  intro r sl hs
  rcases h r sl hs with ⟨a, b, k, r', sl', e1, e2, hab, a1, a2⟩ | ⟨⟨e, r', e1⟩, ⟨e', sl', e2⟩⟩
  · rw [e1, e2]; exact ⟨hab, hs.adv a1 a2⟩
  · rw [e1, e2]; trivial

theorem readExact_rel (p : Bool) (k : Nat) : RelD p p (· = ·) (readExact k) (readExact k) := by
  apply relD_of_spec
  intro r sl hs
  have h := hs.sim
  have hr := readExact_spec k r h.wf_reader
  have hsl := readExact_spec k sl h.wf_slice
  rw [← h.eff, ← h.rest] at hsl
  by_cases hk : k ≤ r.eff
  · obtain ⟨r', e1, a1⟩ := hr.1 hk
    obtain ⟨sl', e2, a2⟩ := hsl.1 hk
    exact .inl ⟨_, _, k, r', sl', e1, e2, rfl, a1, a2⟩
  · exact .inr ⟨hr.2 (by omega), hsl.2 (by omega)⟩

theorem readVarint_rel (t : VarTy) : RelD true true (· = ·) (readVarint t) (readVarint t) := by
  apply relD_of_spec
  intro r sl hs
  have h := hs.sim
  have hlim := hs.nolimit rfl
  have hr := readVarint_spec t r h.wf_reader hlim
  have hsl := readVarint_spec t sl h.wf_slice (by rw [← h.limit, hlim])
  rw [← h.rest] at hsl
  cases hd : decodeVar t r.rest with
  | none => exact .inr ⟨hr.2 hd, hsl.2 hd⟩
  | some p =>
    obtain ⟨v, k⟩ := p
    obtain ⟨r', e1, a1⟩ := hr.1 v k hd
    obtain ⟨sl', e2, a2⟩ := hsl.1 v k hd
    exact .inl ⟨_, _, k, r', sl', e1, e2, rfl, a1, a2⟩

theorem readSlice_rel (n : Nat) :
    RelD true true (fun a b => a.1 = b.1) (readSlice n) (readSlice n) := by
  apply relD_of_spec
  intro r sl hs
  have h := hs.sim
  have hlim := hs.nolimit rfl
  have hr := readSlice_spec n r h.wf_reader hlim (fun _ hn => Nat.le_trans hn hs.alloc)
  have hsl := readSlice_spec n sl h.wf_slice (by rw [← h.limit, hlim])
    (fun hsl => by rw [h.slice] at hsl; cases hsl)
  rw [← h.rest] at hsl
  by_cases hk : n ≤ r.rest.length
  · obtain ⟨r', e1, a1⟩ := hr.1 hk
    obtain ⟨sl', e2, a2⟩ := hsl.1 hk
    exact .inl ⟨_, _, n, r', sl', e1, e2, rfl, a1, a2⟩
  · exact .inr ⟨hr.2 (by omega), hsl.2 (by omega)⟩

theorem skipBytes_rel (n : Nat) : RelD true true (· = ·) (skipBytes n) (skipBytes n) := by
  apply relD_of_spec
  intro r sl hs
  have h := hs.sim
  have hlim := hs.nolimit rfl
  have hr := skipBytes_spec n r h.wf_reader hlim
  have hsl := skipBytes_spec n sl h.wf_slice (by rw [← h.limit, hlim])
  rw [← h.rest] at hsl
  by_cases hk : n ≤ r.rest.length
  · obtain ⟨r', e1, a1⟩ := hr.1 hk
    obtain ⟨sl', e2, a2⟩ := hsl.1 hk
    exact .inl ⟨_, _, n, r', sl', e1, e2, rfl, a1, a2⟩
  · exact .inr ⟨hr.2 (by omega), hsl.2 (by omega)⟩

theorem readSome_one_rel (p : Bool) : RelD p p (· = ·) (readSome 1) (readSome 1) := by
  apply relD_of_spec
  intro r sl hs
  obtain ⟨m, m', r', sl', h1, h2, h3, h4, h5, h6, h7⟩ := C11_readSome 1 r sl hs.sim
  have : m = m' := by
    have : r.lim 1 ≤ 1 := by unfold RState.lim; cases r.limit <;> simp only <;> omega
    omega
  subst this
  exact .inl ⟨_, _, m, r', sl', h1, h2, rfl, h6, h7⟩

/-! #### Values up to the `borrowed` flags -/

mutual
/-- forget whether strings / byte strings were handed over borrowed or copied -/
def unborrow : Out → Out
  | .str s _ => .str s false
  | .bytes b _ => .bytes b false
  | .some o => .some (unborrow o)
  | .seq items => .seq (unborrowL items)
  | .map es => .map (unborrowP es)
  | .variant n p => .variant (unborrow n) (unborrow p)
  | o => o
def unborrowL : List Out → List Out
  | [] => []
  | o :: os => unborrow o :: unborrowL os
def unborrowP : List (Out × Out) → List (Out × Out)
  | [] => []
  | (k, v) :: es => (unborrow k, unborrow v) :: unborrowP es
end

/-- equal up to the `borrowed` flags -/
def Ro (a b : Out) : Prop := unborrow a = unborrow b
def RL (a b : List Out) : Prop := unborrowL a = unborrowL b
def RP (a b : List (Out × Out)) : Prop := unborrowP a = unborrowP b

theorem unborrowL_eq (l : List Out) : unborrowL l = l.map unborrow := by
  induction l with
  | nil => simp [unborrowL]
  | cons a l ih => simp [unborrowL, ih]

theorem unborrowP_eq (l : List (Out × Out)) :
    unborrowP l = l.map fun kv => (unborrow kv.1, unborrow kv.2) := by
  induction l with
  | nil => simp [unborrowP]
  | cons a l ih => obtain ⟨k, v⟩ := a; simp [unborrowP, ih]

theorem Ro.refl (a : Out) : Ro a a := rfl
theorem Ro.of_eq {a b : Out} (h : a = b) : Ro a b := by rw [h]; rfl
theorem RL.nil : RL [] [] := rfl
theorem RP.nil : RP [] [] := rfl
theorem RL.cons {a b : Out} {l l' : List Out} (h : Ro a b) (hl : RL l l') :
    RL (a :: l) (b :: l') := by
  unfold RL Ro at *; simp [unborrowL, h, hl]
theorem RP.cons {k k' v v' : Out} {l l' : List (Out × Out)} (hk : Ro k k') (hv : Ro v v')
    (hl : RP l l') : RP ((k, v) :: l) ((k', v') :: l') := by
  unfold RP Ro at *; simp [unborrowP, hk, hv, hl]
theorem RL.reverse {l l' : List Out} (h : RL l l') : RL l.reverse l'.reverse := by
  unfold RL at *; rw [unborrowL_eq, unborrowL_eq] at *; simp [List.map_reverse, h]
theorem RP.reverse {l l' : List (Out × Out)} (h : RP l l') : RP l.reverse l'.reverse := by
  unfold RP at *; rw [unborrowP_eq, unborrowP_eq] at *; simp only [List.map_reverse, h]
theorem Ro.seq {l l' : List Out} (h : RL l l') : Ro (.seq l) (.seq l') := by
  unfold Ro RL at *; simp [unborrow, h]
theorem Ro.map {l l' : List (Out × Out)} (h : RP l l') : Ro (.map l) (.map l') := by
  unfold Ro RP at *; simp [unborrow, h]
theorem Ro.some {a b : Out} (h : Ro a b) : Ro (.some a) (.some b) := by
  unfold Ro at *; simp [unborrow, h]
theorem Ro.variant {a b c d : Out} (h : Ro a b) (h' : Ro c d) :
    Ro (.variant a c) (.variant b d) := by
  unfold Ro at *; simp [unborrow, h, h']
theorem Ro.str (s : String) (f f' : Bool) : Ro (.str s f) (.str s f') := by
  simp [Ro, unborrow]
theorem Ro.bytes (b : Bytes) (f f' : Bool) : Ro (.bytes b f) (.bytes b f') := by
  simp [Ro, unborrow]

theorem selectVariant_unborrow (variants : List (String × VariantHint)) (o : Out) :
    selectVariant variants (unborrow o) = selectVariant variants o := by
  cases o <;> simp [unborrow, selectVariant]

theorem Ro.selectVariant {a b : Out} (h : Ro a b) (variants : List (String × VariantHint)) :
    selectVariant variants a = selectVariant variants b := by
  rw [← selectVariant_unborrow variants a, ← selectVariant_unborrow variants b, h]

/-! #### Non-recursive pieces -/

theorem readLen_rel : RelD true true (· = ·) readLen readLen := by
  unfold readLen
  apply RelD.bind (readVarint_rel _)
  intro a b hab; subst hab
  split
  · exact RelD.fail
  · exact RelD.pure rfl

theorem readString_rel : RelD true true Ro readString readString := by
  unfold readString
  apply RelD.bind readLen_rel
  intro a b hab; subst hab
  apply RelD.bind (readSlice_rel _)
  rintro ⟨b1, f1⟩ ⟨b2, f2⟩ hab
  simp only at hab; subst hab
  dsimp only
  split
  · exact RelD.pure (Ro.str _ _ _)
  · exact RelD.fail

theorem readBytes_rel : RelD true true Ro readBytes readBytes := by
  unfold readBytes
  apply RelD.bind readLen_rel
  intro a b hab; subst hab
  apply RelD.bind (readSlice_rel _)
  rintro ⟨b1, f1⟩ ⟨b2, f2⟩ hab
  simp only at hab; subst hab
  exact RelD.pure (Ro.bytes _ _ _)

theorem readBool_rel : RelD true true (· = ·) readBool readBool := by
  unfold readBool
  apply RelD.bind (readSlice_rel _)
  rintro ⟨b1, f1⟩ ⟨b2, f2⟩ hab
  simp only at hab; subst hab
  dsimp only
  split
  · exact RelD.pure rfl
  · exact RelD.pure rfl
  · exact RelD.fail

theorem readBlockLen_rel (ignored : Bool) (fuel : Nat) :
    RelD true true (· = ·) (readBlockLen ignored fuel) (readBlockLen ignored fuel) := by
  induction fuel with
  | zero => exact RelD.fail
  | succ fuel ih =>
    unfold readBlockLen
    apply RelD.bind (readVarint_rel _)
    intro a b hab; subst hab
    split
    · split
      · apply RelD.bind (readVarint_rel _)
        intro a b hab; subst hab
        split
        · exact RelD.fail
        · apply RelD.bind (skipBytes_rel _)
          intro _ _ _
          exact ih
      · apply RelD.bind (readVarint_rel _)
        intro a b hab; subst hab
        split
        · exact RelD.fail
        · exact RelD.pure rfl
    · exact RelD.pure rfl

theorem hasMore_rel (cfg : DeConfig) (ignored : Bool) (bs : BlockState) :
    RelD true true (· = ·) (hasMore cfg ignored bs) (hasMore cfg ignored bs) := by
  intro r sl hs
  unfold hasMore
  cases hc : bs.current with
  | succ c => exact ⟨rfl, hs⟩
  | zero =>
    have h := readBlockLen_rel ignored (r.rest.length + 2) r sl hs
    simp only
    rw [← hs.sim.rest]
    rcases hm : readBlockLen ignored (r.rest.length + 2) r with ⟨(e | a), r'⟩ <;>
      rcases hm' : readBlockLen ignored (r.rest.length + 2) sl with ⟨(e' | b), sl'⟩ <;>
      rw [hm, hm'] at h
    · trivial
    · exact h.elim
    · exact h.elim
    · obtain ⟨rfl, h2⟩ := h
      cases a with
      | none => exact ⟨rfl, h2⟩
      | some l =>
        simp only
        split
        · trivial
        · exact ⟨rfl, h2⟩

theorem decDepth_rel (p : Bool) (d : Nat) : RelD p p (· = ·) (decDepth d) (decDepth d) := by
  unfold decDepth
  split
  · exact RelD.fail
  · exact RelD.pure rfl

theorem setLimit_rel (p : Bool) (l : Option Nat) :
    RelD p false (· = ·) (setLimit l) (setLimit l) := by
  intro r sl hs
  exact ⟨rfl, ⟨hs.sim.reader, hs.sim.slice, hs.sim.rest, hs.sim.avail, rfl⟩, hs.alloc,
    fun h => by cases h⟩

theorem getLimit_rel (p : Bool) : RelD p p (· = ·) getLimit getLimit := by
  intro r sl hs
  exact ⟨hs.sim.limit, hs⟩

theorem withLimitCleared_rel {p q : Bool} {α β : Type} {R : α → β → Prop} {m : DeM α} {m' : DeM β}
    (h : RelD p q R m m') : RelD p true R (withLimitCleared m) (withLimitCleared m') := by
  intro r sl hs
  have h := h r sl hs
  unfold withLimitCleared
  rcases hm : m r with ⟨(e | a), r'⟩ <;> rcases hm' : m' sl with ⟨(e' | b), sl'⟩ <;>
    rw [hm, hm'] at h
  · trivial
  · exact h.elim
  · exact h.elim
  · obtain ⟨h1, h2⟩ := h
    exact ⟨h1, ⟨h2.sim.reader, h2.sim.slice, h2.sim.rest, h2.sim.avail, rfl⟩, h2.alloc,
      fun _ => rfl⟩

theorem varintProcessor_rel (p : Bool) (t : VarTy) (fuel : Nat) : ∀ buf : Bytes,
    RelD p p (· = ·) (varintProcessor t fuel buf) (varintProcessor t fuel buf) := by
  induction fuel with
  | zero =>
    intro buf
    unfold varintProcessor
    split
    · exact RelD.pure rfl
    · exact RelD.fail
  | succ fuel ih =>
    intro buf
    unfold varintProcessor
    split
    · split
      · exact RelD.pure rfl
      · exact RelD.fail
    · apply RelD.bind (readSome_one_rel p)
      intro a b hab; subst hab
      split
      · split
        · exact RelD.fail
        · split
          · exact RelD.pure rfl
          · exact RelD.fail
      · split
        · exact RelD.fail
        · exact ih _

theorem readDecimal_rel (ext : DeExt) (mode : DecMode) (hint : DecHint) :
    RelD true true Ro (readDecimal ext mode hint) (readDecimal ext mode hint) := by
  unfold readDecimal
  apply RelD.bind (R := (· = ·))
  · split
    · apply RelD.bind readLen_rel
      intro a b hab; subst hab
      split
      · exact RelD.fail
      · apply RelD.bind (readExact_rel _ _)
        intro a b hab; subst hab
        exact RelD.pure rfl
    · split
      · exact RelD.fail
      · apply RelD.bind (readExact_rel _ _)
        intro a b hab; subst hab
        exact RelD.pure rfl
    · apply RelD.bind readLen_rel
      intro a b hab; subst hab
      apply RelD.bind (setLimit_rel _ _)
      intro _ _ _
      apply withLimitCleared_rel (p := false) (q := false)
      apply RelD.bind (varintProcessor_rel _ _ _ _)
      intro a b hab; subst hab
      split
      · exact RelD.fail
      · dsimp only
        split
        · exact RelD.fail
        · apply RelD.bind (readExact_rel _ _)
          intro a b hab; subst hab
          apply RelD.bind (varintProcessor_rel _ _ _ _)
          intro a b hab; subst hab
          split
          · exact RelD.fail
          · apply RelD.bind (getLimit_rel _)
            intro a b hab; subst hab
            split
            · exact RelD.fail
            · exact RelD.pure rfl
  · rintro ⟨u, sc⟩ _ rfl
    dsimp only
    repeat (first | exact RelD.fail | exact RelD.pure (Ro.refl _) | split)

/-! #### The mutual block, by induction on the model fuel -/

structure DeRel (ext : DeExt) (cfg : DeConfig) (S : Schema) (fuel : Nat) : Prop where
  de : ∀ node depth favor h, RelD true true Ro
    (de ext cfg S fuel node depth favor h) (de ext cfg S fuel node depth favor h)
  tne : ∀ node depth variants, RelD true true Ro
    (deTypeNameEnum ext cfg S fuel node depth variants)
    (deTypeNameEnum ext cfg S fuel node depth variants)
  any : ∀ node depth h, RelD true true Ro
    (deAny ext cfg S fuel node depth h) (deAny ext cfg S fuel node depth h)
  ign : ∀ node depth, RelD true true Ro
    (deIgnored ext cfg S fuel node depth) (deIgnored ext cfg S fuel node depth)
  seq : ∀ item depth ignored eh maxItems bs acc acc', RL acc acc' → RelD true true RL
    (deSeqLoop ext cfg S fuel item depth ignored eh maxItems bs acc)
    (deSeqLoop ext cfg S fuel item depth ignored eh maxItems bs acc')
  map : ∀ item depth ignored h bs acc acc', RP acc acc' → RelD true true RP
    (deMapLoop ext cfg S fuel item depth ignored h bs acc)
    (deMapLoop ext cfg S fuel item depth ignored h bs acc')
  recd : ∀ fields depth h acc acc', RP acc acc' → RelD true true RP
    (deRecordFields ext cfg S fuel fields depth h acc)
    (deRecordFields ext cfg S fuel fields depth h acc')

macro "rel_auto" ih:term : tactic => `(tactic| repeat (first
  | exact RelD.fail
  | exact RelD.pure (Ro.refl _)
  | exact readString_rel
  | exact readBytes_rel
  | exact readDecimal_rel _ _ _
  | exact RelD.mono readBool_rel (fun _ _ h => Ro.of_eq h)
  | exact DeRel.any $ih _ _ _
  | exact DeRel.ign $ih _ _
  | exact DeRel.tne $ih _ _ _
  | exact RelD.pure (Ro.str _ _ _)
  | exact RelD.pure (Ro.bytes _ _ _)
  | exact RelD.pure (Ro.some ‹Ro _ _›)
  | exact RelD.pure (Ro.variant ‹Ro _ _› (Ro.refl _))
  | exact RelD.pure (Ro.variant (Ro.refl _) ‹Ro _ _›)
  | exact RelD.pure (Ro.seq ‹RL _ _›)
  | exact RelD.pure (Ro.map ‹RP _ _›)
  | (apply RelD.bind (readVarint_rel _); intro a b hab; subst hab)
  | (apply RelD.bind (readExact_rel _ _); intro a b hab; subst hab)
  | (apply RelD.bind readLen_rel; intro a b hab; subst hab)
  | (apply RelD.bind (decDepth_rel _ _); intro a b hab; subst hab)
  | (apply RelD.bind (readSlice_rel _); rintro ⟨b1, f1⟩ ⟨b2, f2⟩ hab; simp only at hab; subst hab;
      try dsimp only)
  | (apply RelD.bind (DeRel.de $ih _ _ _ _); intro a b hab; try rw [Ro.selectVariant hab])
  | (apply RelD.bind (DeRel.ign $ih _ _); intro a b hab)
  | (apply RelD.bind (DeRel.any $ih _ _ _); intro a b hab)
  | (apply RelD.bind (DeRel.seq $ih _ _ _ _ _ _ _ _ RL.nil); intro a b hab)
  | (apply RelD.bind (DeRel.map $ih _ _ _ _ _ _ _ RP.nil); intro a b hab)
  | (apply RelD.bind (DeRel.recd $ih _ _ _ _ _ RP.nil); intro a b hab)
  | split))

variable {ext : DeExt} {cfg : DeConfig} {S : Schema} {fuel : Nat}

theorem de_step (ih : DeRel ext cfg S fuel) (node : Node) (depth : Nat) (favor : Bool) (h : Hint) :
    RelD true true Ro (de ext cfg S (fuel + 1) node depth favor h)
      (de ext cfg S (fuel + 1) node depth favor h) := by
  cases h <;> unfold de <;> dsimp only <;> rel_auto ih

theorem tne_step (ih : DeRel ext cfg S fuel) (node : Node) (depth : Nat)
    (variants : List (String × VariantHint)) :
    RelD true true Ro (deTypeNameEnum ext cfg S (fuel + 1) node depth variants)
      (deTypeNameEnum ext cfg S (fuel + 1) node depth variants) := by
  unfold deTypeNameEnum
  dsimp only
  rel_auto ih

theorem any_step (ih : DeRel ext cfg S fuel) (node : Node) (depth : Nat) (h : Hint) :
    RelD true true Ro (deAny ext cfg S (fuel + 1) node depth h)
      (deAny ext cfg S (fuel + 1) node depth h) := by
  unfold deAny
  rel_auto ih

theorem ign_step (ih : DeRel ext cfg S fuel) (node : Node) (depth : Nat) :
    RelD true true Ro (deIgnored ext cfg S (fuel + 1) node depth)
      (deIgnored ext cfg S (fuel + 1) node depth) := by
  unfold deIgnored
  rel_auto ih

theorem seq_step (ih : DeRel ext cfg S fuel) (item : Node) (depth : Nat) (ignored : Bool)
    (eh : Hint) (maxItems : Option Nat) (bs : BlockState) (acc acc' : List Out)
    (hacc : RL acc acc') :
    RelD true true RL (deSeqLoop ext cfg S (fuel + 1) item depth ignored eh maxItems bs acc)
      (deSeqLoop ext cfg S (fuel + 1) item depth ignored eh maxItems bs acc') := by
  unfold deSeqLoop
  split
  · apply RelD.bind (hasMore_rel _ _ _)
    rintro ⟨m1, bs1⟩ _ rfl
    dsimp only
    split
    · exact RelD.fail
    · exact RelD.pure hacc.reverse
  · apply RelD.bind (hasMore_rel _ _ _)
    rintro ⟨m1, bs1⟩ _ rfl
    dsimp only
    split
    · exact RelD.pure hacc.reverse
    · apply RelD.bind (ih.de _ _ _ _)
      intro a b hab
      exact ih.seq _ _ _ _ _ _ _ _ (RL.cons hab hacc)

theorem map_step (ih : DeRel ext cfg S fuel) (item : Node) (depth : Nat) (ignored : Bool)
    (h : Hint) (bs : BlockState) (acc acc' : List (Out × Out)) (hacc : RP acc acc') :
    RelD true true RP (deMapLoop ext cfg S (fuel + 1) item depth ignored h bs acc)
      (deMapLoop ext cfg S (fuel + 1) item depth ignored h bs acc') := by
  unfold deMapLoop
  apply RelD.bind (hasMore_rel _ _ _)
  rintro ⟨m1, bs1⟩ _ rfl
  dsimp only
  split
  · exact RelD.pure hacc.reverse
  · apply RelD.bind readLen_rel
    intro n _ hn; subst hn
    apply RelD.bind (readSlice_rel _)
    rintro ⟨b1, f1⟩ ⟨b2, f2⟩ hb
    simp only at hb; subst hb
    dsimp only
    apply RelD.bind (R := fun a b => Ro a.1 b.1 ∧ a.2 = b.2)
    · split
      · exact RelD.pure ⟨Ro.refl _, rfl⟩
      · split
        · exact RelD.pure ⟨Ro.str _ _ _, rfl⟩
        · exact RelD.fail
    · rintro ⟨k1, n1⟩ ⟨k2, n2⟩ ⟨hk, hn⟩
      simp only at hk hn; subst hn
      dsimp only
      apply RelD.bind (ih.de _ _ _ _)
      intro a b hab
      exact ih.map _ _ _ _ _ _ _ (RP.cons hk hab hacc)

theorem recd_step (ih : DeRel ext cfg S fuel) (fields : List (String × Nat)) (depth : Nat)
    (h : Hint) (acc acc' : List (Out × Out)) (hacc : RP acc acc') :
    RelD true true RP (deRecordFields ext cfg S (fuel + 1) fields depth h acc)
      (deRecordFields ext cfg S (fuel + 1) fields depth h acc') := by
  cases fields with
  | nil => unfold deRecordFields; exact RelD.pure hacc.reverse
  | cons f rest =>
    obtain ⟨name, k⟩ := f
    unfold deRecordFields
    split
    · exact RelD.fail
    · dsimp only
      apply RelD.bind (ih.de _ _ _ _)
      intro a b hab
      exact ih.recd _ _ _ _ _ (RP.cons (Ro.refl _) hab hacc)

theorem deRel_all (ext : DeExt) (cfg : DeConfig) (S : Schema) : ∀ fuel, DeRel ext cfg S fuel := by
  intro fuel
  induction fuel with
  | zero =>
    refine ⟨?_, ?_, ?_, ?_, ?_, ?_, ?_⟩
    · intros; unfold de; exact RelD.fail
    · intros; unfold deTypeNameEnum; exact RelD.fail
    · intros; unfold deAny; exact RelD.fail
    · intros; unfold deIgnored; exact RelD.fail
    · intros; unfold deSeqLoop; exact RelD.fail
    · intros; unfold deMapLoop; exact RelD.fail
    · intro fields depth h acc acc' hacc
      cases fields with
      | nil => unfold deRecordFields; exact RelD.pure hacc.reverse
      | cons f rest => unfold deRecordFields; exact RelD.fail
  | succ fuel ih =>
    exact ⟨de_step ih, tne_step ih, any_step ih, ign_step ih, seq_step ih, map_step ih,
      recd_step ih⟩

/-! #### Final statements -/

theorem OutEqD.toOutEq {p : Bool} {α β : Type} {R : α → β → Prop}
    {x : Except DeErr α × RState} {y : Except DeErr β × RState} (h : OutEqD p R x y) :
    OutEq R x y := by
  obtain ⟨(e | a), r'⟩ := x <;> obtain ⟨(e' | b), sl'⟩ := y
  · trivial
  · exact h.elim
  · exact h.elim
  · exact ⟨h.1, h.2.sim⟩

/-- From the relational form to the statement on a pair of corresponding states without `Take`,
    where the reader may allocate what is left. -/
theorem RelD.outEq {q : Bool} {α β : Type} {R : α → β → Prop} {m : DeM α} {m' : DeM β}
    (h : RelD true q R m m') {r sl : RState} (hsim : Sim r sl) (hlim : r.limit = none)
    (halloc : r.rest.length ≤ r.maxAlloc) : OutEq R (m r) (m' sl) :=
  (h r sl ⟨hsim, halloc, fun _ => hlim⟩).toOutEq

/-- Unfolding of `OutEq`: both succeed (related values, corresponding states, same number of
    bytes consumed) or both fail. -/
theorem OutEq.cases {α β : Type} {R : α → β → Prop} {r sl : RState} (hsim : Sim r sl)
    {x : Except DeErr α × RState} {y : Except DeErr β × RState} (h : OutEq R x y) :
    (∃ a b r' sl', x = (.ok a, r') ∧ y = (.ok b, sl') ∧ R a b ∧ Sim r' sl' ∧
        r.rest.length - r'.rest.length = sl.rest.length - sl'.rest.length) ∨
    (∃ e e' r' sl', x = (.error e, r') ∧ y = (.error e', sl')) := by
  obtain ⟨(e | a), r'⟩ := x <;> obtain ⟨(e' | b), sl'⟩ := y
  · exact .inr ⟨e, e', r', sl', rfl, rfl⟩
  · exact h.elim
  · exact h.elim
  · exact .inl ⟨a, b, r', sl', rfl, rfl, h.1, h.2, OutEq.consumed hsim h⟩

/-- The two initial states over the same input: any chunk schedule `sched`/`lastChunk`. -/
theorem Sim.init (bs : Bytes) (sched : List Nat) (lastChunk maxAlloc maxAlloc' scratch scratch' : Nat) :
    Sim { isSlice := false, rest := bs, avail := 0, sched := sched, lastChunk := lastChunk,
          maxAlloc := maxAlloc, scratch := scratch, limit := none }
        { isSlice := true, rest := bs, maxAlloc := maxAlloc', scratch := scratch', limit := none } :=
  ⟨rfl, rfl, rfl, Nat.zero_le _, rfl⟩

variable (ext : DeExt) (cfg : DeConfig) (S : Schema)

/-- **C11** for the datum deserializer: from corresponding states (no `Take` in place, which is
    the case between datums; `max_alloc` at least what is left), for every chunk schedule of the
    reader, every schema node, target hint, depth budget and model fuel, `de` on the reader and on
    the slice either both fail or both succeed with values equal up to the `borrowed` flags and
    corresponding states (hence the same number of bytes consumed, `OutEq.cases`). -/
theorem C11_de (fuel : Nat) (node : Node) (depth : Nat) (favor : Bool) (h : Hint)
    (r sl : RState) (hsim : Sim r sl) (hlim : r.limit = none)
    (halloc : r.rest.length ≤ r.maxAlloc) :
    OutEq (fun a b => unborrow a = unborrow b)
      (de ext cfg S fuel node depth favor h r) (de ext cfg S fuel node depth favor h sl) :=
  ((deRel_all ext cfg S fuel).de node depth favor h).outEq hsim hlim halloc

/-- `C11_de` spelled out. -/
theorem C11_de_cases (fuel : Nat) (node : Node) (depth : Nat) (favor : Bool) (h : Hint)
    (r sl : RState) (hsim : Sim r sl) (hlim : r.limit = none)
    (halloc : r.rest.length ≤ r.maxAlloc) :
    (∃ a b r' sl', de ext cfg S fuel node depth favor h r = (.ok a, r') ∧
        de ext cfg S fuel node depth favor h sl = (.ok b, sl') ∧ unborrow a = unborrow b ∧
        Sim r' sl' ∧ r.rest.length - r'.rest.length = sl.rest.length - sl'.rest.length) ∨
    (∃ e e' r' sl', de ext cfg S fuel node depth favor h r = (.error e, r') ∧
        de ext cfg S fuel node depth favor h sl = (.error e', sl')) :=
  (C11_de ext cfg S fuel node depth favor h r sl hsim hlim halloc).cases hsim

/-- The other entry points of the mutual block. -/
theorem C11_deAny (fuel : Nat) (node : Node) (depth : Nat) (h : Hint)
    (r sl : RState) (hsim : Sim r sl) (hlim : r.limit = none)
    (halloc : r.rest.length ≤ r.maxAlloc) :
    OutEq (fun a b => unborrow a = unborrow b)
      (deAny ext cfg S fuel node depth h r) (deAny ext cfg S fuel node depth h sl) :=
  ((deRel_all ext cfg S fuel).any node depth h).outEq hsim hlim halloc

theorem C11_deIgnored (fuel : Nat) (node : Node) (depth : Nat)
    (r sl : RState) (hsim : Sim r sl) (hlim : r.limit = none)
    (halloc : r.rest.length ≤ r.maxAlloc) :
    OutEq (fun a b => unborrow a = unborrow b)
      (deIgnored ext cfg S fuel node depth r) (deIgnored ext cfg S fuel node depth sl) :=
  ((deRel_all ext cfg S fuel).ign node depth).outEq hsim hlim halloc

/-- The non-recursive helpers, in `OutEq` form. -/
theorem C11_readLen (r sl : RState) (hsim : Sim r sl) (hlim : r.limit = none)
    (halloc : r.rest.length ≤ r.maxAlloc) : OutEq (· = ·) (readLen r) (readLen sl) :=
  readLen_rel.outEq hsim hlim halloc

theorem C11_readString (r sl : RState) (hsim : Sim r sl) (hlim : r.limit = none)
    (halloc : r.rest.length ≤ r.maxAlloc) : OutEq Ro (readString r) (readString sl) :=
  readString_rel.outEq hsim hlim halloc

theorem C11_readBytes (r sl : RState) (hsim : Sim r sl) (hlim : r.limit = none)
    (halloc : r.rest.length ≤ r.maxAlloc) : OutEq Ro (readBytes r) (readBytes sl) :=
  readBytes_rel.outEq hsim hlim halloc

theorem C11_readBool (r sl : RState) (hsim : Sim r sl) (hlim : r.limit = none)
    (halloc : r.rest.length ≤ r.maxAlloc) : OutEq (· = ·) (readBool r) (readBool sl) :=
  readBool_rel.outEq hsim hlim halloc

theorem C11_readBlockLen (ignored : Bool) (fuel : Nat) (r sl : RState) (hsim : Sim r sl)
    (hlim : r.limit = none) (halloc : r.rest.length ≤ r.maxAlloc) :
    OutEq (· = ·) (readBlockLen ignored fuel r) (readBlockLen ignored fuel sl) :=
  (readBlockLen_rel ignored fuel).outEq hsim hlim halloc

theorem C11_hasMore (ignored : Bool) (bs : BlockState) (r sl : RState) (hsim : Sim r sl)
    (hlim : r.limit = none) (halloc : r.rest.length ≤ r.maxAlloc) :
    OutEq (· = ·) (hasMore cfg ignored bs r) (hasMore cfg ignored bs sl) :=
  (hasMore_rel cfg ignored bs).outEq hsim hlim halloc

theorem C11_readDecimal (mode : DecMode) (hint : DecHint) (r sl : RState) (hsim : Sim r sl)
    (hlim : r.limit = none) (halloc : r.rest.length ≤ r.maxAlloc) :
    OutEq Ro (readDecimal ext mode hint r) (readDecimal ext mode hint sl) :=
  (readDecimal_rel ext mode hint).outEq hsim hlim halloc

/-- `VarIntReader::read_varint` on a `Take` (inside a big-decimal): any limit. -/
theorem C11_varintProcessor (t : VarTy) (fuel : Nat) (buf : Bytes) (r sl : RState)
    (hsim : Sim r sl) (halloc : r.rest.length ≤ r.maxAlloc) :
    OutEq (· = ·) (varintProcessor t fuel buf r) (varintProcessor t fuel buf sl) :=
  (varintProcessor_rel false t fuel buf r sl ⟨hsim, halloc, fun h => by cases h⟩).toOutEq

end Avro.Theorems
