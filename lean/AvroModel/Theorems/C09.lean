import AvroModel.Lemmas.SchemaRender
/-
C09: the JSON reported for a schema built or edited programmatically is a regenerated document
that parses back to an isomorphic graph; a graph that cannot be expressed (a cycle through
unnamed types only) makes the regeneration fail.

This file proves the local facts the round trip rests on, for *every* arrangement of
(enclosing namespace, name):

* `Name.WF` — what a `schema::Name` can hold — is exactly the image of
  `Name::from_fully_qualified_name` (`C09_ofFq_wf`, `C09_wf_iff`), and every key the parser makes
  for a definition denotes such a name (`C09_defKey_wf`);
* the `"name"`/`"namespace"` members written by `serialize_name` are read back by the parser's
  definition rule as the same name (`C09_def_spelling_roundtrip`), and the string written by
  `str_for_ref` is read back by the reference rule as the same name
  (`C09_ref_spelling_roundtrip`) — no side condition on the namespaces at all;
* **corner** (`C09_ref_keyword_corner`, `C09_ref_keyword_example`): the reference string is read
  as a reference only if it is not one of the 13 type keywords; a named type whose *short name*
  is `"int"`, `"string"`, `"record"`, … and which is referenced from its own namespace is written
  as the bare keyword and parsed back as that type;
* logical types and their parameters are carried by the written members
  (`C09_logical_members_roundtrip`);
* regeneration fails on a cycle through unnamed nodes (`C09_unnamed_cycle_err` for the direct
  cases with every fuel ≥ 3, `C09_unnamed_cycle_err_general` for every such graph) and on a union
  carrying a logical type (`C09_union_logical_err`).

Definitions used (in `Lemmas/SchemaRender.lean`): `NoDot s` (`'.' ∉ s.toList`), `Name.WF`,
`readStr ms key` (= the parser's `optString (← member ms key)`), `logicalOfMembers`,
`LogicalType.Expressible`, `UnnamedClosed S C`, `renderBound S`.
-/
namespace Avro.Theorems
open Avro Avro.Impl

/-! ### 0. well-formed names -/

/-- `Name::from_fully_qualified_name` always yields a well-formed name: the short name has no
    dot, no namespace means `fq = short`, a namespace is non-empty and `fq = ns.short`.
    (`".x"` ↦ no namespace; `"a..x"` ↦ namespace `"a."`; `"x."` ↦ short name `""`.) -/
theorem C09_ofFq_wf (s : String) : (Name.ofFq s).WF := Name.ofFq_wf s

/-- … and every well-formed name is obtained that way (from its own `fq`). -/
theorem C09_wf_iff (n : Name) : n.WF ↔ ∃ s, n = Name.ofFq s := Name.wf_iff n

example : Name.ofFq ".x" = ⟨"x", "x", none⟩ := by decide
example : Name.ofFq "a..x" = ⟨"a..x", "x", some "a."⟩ := by decide
example : Name.ofFq "x." = ⟨"x.", "", some "x"⟩ := by decide

/-- The name of every definition the parser registers is well-formed (the enclosing namespace
    is `none` at the root and the namespace of such a key below, never `some ""`). -/
theorem C09_defKey_wf (nm : String) (nsAttr enclosing : Option String)
    (henc : enclosing ≠ some "") : (defKey nm nsAttr enclosing).toName.WF :=
  defKey_toName_wf nm nsAttr enclosing henc

/-- The namespace handed to the fields of a record is the namespace of its name, on both sides
    (`registerFields … k.ns` / `renderFields … name.ns`). -/
theorem C09_toName_ns (k : NameKey) : k.toName.ns = k.ns := NameKey.toName_ns k

/-- `s.rsplit_once('.')` of `ns.short` when `short` has no dot. -/
theorem C09_rsplitDot_join (x short : String) (h : NoDot short) :
    rsplitDot (x ++ "." ++ short) = some (x, short) := rsplitDot_join x short h

/-! ### 1.–2. namespace-relative spelling -/

/-- **Definition spelling.** For every well-formed `name` and every enclosing namespace
    `parentNs`, the members written by `serialize_name` contain a `"name"` string `nm` and an
    optional `"namespace"` string `nsAttr` such that the parser's rule for definitions, applied
    in the same enclosing namespace, gives back `name`.  Three cases: same namespace (short name,
    inherits), no namespace under a namespaced parent (`"namespace": ""`), otherwise the dotted
    fullname. -/
theorem C09_def_spelling_roundtrip (name : Name) (h : name.WF) (parentNs : Option String) :
    ∃ nm nsAttr, readStr (nameMembers parentNs name) "name" = .ok (some nm) ∧
      readStr (nameMembers parentNs name) "namespace" = .ok nsAttr ∧
      (defKey nm nsAttr parentNs).toName = name :=
  def_spelling_roundtrip name h parentNs

/-- **Reference spelling.** The string written by `str_for_ref` (bare short name / `"." ++ fq`
    for a name without namespace / fullname) is resolved by the parser's reference rule, in the
    same enclosing namespace, to the same name. -/
theorem C09_ref_spelling_roundtrip (name : Name) (h : name.WF) (parentNs : Option String) :
    (refKey (refString parentNs name) parentNs).toName = name :=
  ref_spelling_roundtrip name h parentNs

/-- The reference string is *read as a reference* when it is not a type keyword … -/
theorem C09_ref_is_reference (name : Name) (parentNs : Option String) (fuel : Nat)
    (h : RawType.ofString (refString parentNs name) = none) :
    rawOfJson (fuel + 1) (.str (refString parentNs name)) = .ok (.ref (refString parentNs name)) := by
  simp [rawOfJson, h]

/-- … **corner** (defect D20, repaired): with the spelling the crate used before the repair
    (`refStringOld`), a named type referenced from its own namespace whose short name is a type
    keyword was written as that keyword and read back as the type, not as a reference. -/
theorem C09_ref_keyword_corner (name : Name) (fuel : Nat) (t : RawType)
    (h : RawType.ofString name.short = some t) :
    rawOfJson (fuel + 1) (.str (refStringOld name.ns name)) = .ok (.type t) := by
  simp [rawOfJson, refStringOld, h]

/-- Instance that was replayed on the crate: the (well-formed) name `int` without namespace. -/
theorem C09_ref_keyword_example :
    (⟨"int", "int", none⟩ : Name).WF ∧
      rawOfJson 1 (.str (refStringOld none ⟨"int", "int", none⟩)) = .ok (.type .int) := by
  refine ⟨⟨by unfold NoDot; decide, fun _ => rfl, fun x hx => by cases hx⟩, ?_⟩
  exact C09_ref_keyword_corner ⟨"int", "int", none⟩ 0 .int (by decide)

/-- none of the thirteen type names contains a dot -/
theorem ofString_some_nodot (s : String) (t : RawType) (h : RawType.ofString s = some t) :
    '.' ∉ s.toList := by
  unfold RawType.ofString at h
  split at h <;> first | (simp at h; done) | decide

/-- After the repair the string written for a reference is **always** read as a reference:
    either it is a bare short name that is not a type name, or it contains a dot. -/
theorem C09_ref_always_reference (name : Name) (h : name.WF) (parentNs : Option String) (fuel : Nat) :
    rawOfJson (fuel + 1) (.str (refString parentNs name)) = .ok (.ref (refString parentNs name)) := by
  apply C09_ref_is_reference
  unfold refString
  split
  · rename_i hc
    have := hc.2
    cases hh : RawType.ofString name.short with
    | none => rfl
    | some t => simp [hh] at this
  · cases hr : RawType.ofString (if name.ns.isNone = true then "." ++ name.fq else name.fq) with
    | none => rfl
    | some t =>
      exfalso
      have hd := ofString_some_nodot _ t hr
      split at hd
      · apply hd; simp [String.toList_append]
      · rename_i hns
        cases hn : name.ns with
        | none => simp [hn] at hns
        | some x =>
          obtain ⟨_, hfq⟩ := h.ns_some x hn
          apply hd; rw [hfq]; simp [String.toList_append]

/-! ### 3. logical types -/

/-- The members written by `serialize_type_and_logical_type` carry the type name, and the
    logical type with its parameters, back through the parser — for every logical type the crate
    can spell unambiguously (`unknown n` with `n` not one of the nine known names; decimal
    parameters within `u32` / `usize`). -/
theorem C09_logical_members_roundtrip (t : String) (l : Option LogicalType)
    (h : ∀ lt, l = some lt → lt.Expressible) :
    member (typeMembers t l) "type" = .ok (some (.str t)) ∧
      logicalOfMembers (typeMembers t l) = .ok l := by
  refine ⟨?_, logical_members_roundtrip t l h⟩
  cases l with
  | none => simp [typeMembers, member]
  | some lt => cases lt <;> simp [typeMembers, member]

/-- The side condition is needed: `unknown "uuid"` is written like `uuid`. -/
example : logicalOfMembers (typeMembers "string" (some (.unknown "uuid"))) = .ok (some .uuid) := by
  rw [logicalOfMembers_eq _ (some "uuid") none none]
  · simp [logicalOf, logicalAttrs]
  all_goals (simp [typeMembers, readStr, readNat, member]; rfl)

/-- **Whole object.** In the object regenerated for a record / enum / fixed node — the members of
    `serialize_type_and_logical_type`, then those of `serialize_name`, then `fields` / `symbols` /
    `size` — the parser reads back the type name, the logical type and the name exactly. -/
theorem C09_object_roundtrip (t : String) (l : Option LogicalType) (parentNs : Option String)
    (name : Name) (rest : List (String × Json))
    (hl : ∀ lt, l = some lt → lt.Expressible) (hn : name.WF)
    (hrest : ∀ p ∈ rest, p.1 ∉ typeKeys ++ nameKeys) :
    let ms := typeMembers t l ++ nameMembers parentNs name ++ rest
    member ms "type" = .ok (some (.str t)) ∧ logicalOfMembers ms = .ok l ∧
      ∃ nm nsAttr, readStr ms "name" = .ok (some nm) ∧ readStr ms "namespace" = .ok nsAttr ∧
        (defKey nm nsAttr parentNs).toName = name := by
  intro ms
  have hm := member_object t l parentNs name rest hrest
  obtain ⟨h1, h2⟩ := C09_logical_members_roundtrip t l hl
  obtain ⟨nm, nsAttr, h3, h4, h5⟩ := C09_def_spelling_roundtrip name hn parentNs
  refine ⟨?_, ?_, nm, nsAttr, ?_, ?_, h5⟩
  · rw [(hm "type").1 (by decide)]; exact h1
  · unfold logicalOfMembers readStr at h2 ⊢
    rw [(hm "logicalType").1 (by decide), (hm "precision").1 (by decide),
      (hm "scale").1 (by decide)]
    exact h2
  · unfold readStr at h3 ⊢
    rw [(hm "name").2 (by decide)]; exact h3
  · unfold readStr at h4 ⊢
    rw [(hm "namespace").2 (by decide)]; exact h4

/-! ### 4.–5. graphs that cannot be expressed -/

/-- `no_cycle_guard`: if `render` is (re-)entered on an array/map/union key whose cell holds the
    current generation (or more), it fails. -/
theorem C09_render_reenter (S : SchemaMut) (fuel k : Nat) (ns : Option String) (st : RenderState)
    (hu : isUnnamedKey S k = true) (hg : st.nWritten ≤ st.get k) :
    render S (fuel + 1) k ns st = .error .custom :=
  render_reenter S fuel k ns st hu hg

/-- Direct cases, every fuel ≥ 3: an array / map / union that is its own child, and the two-node
    cycle array → map → array. -/
theorem C09_unnamed_cycle_err (fuel : Nat) (h : 3 ≤ fuel) :
    renderJson #[⟨.array 0, none⟩] fuel = .error .custom ∧
    renderJson #[⟨.map 0, none⟩] fuel = .error .custom ∧
    renderJson #[⟨.union [0], none⟩] fuel = .error .custom ∧
    renderJson #[⟨.array 1, none⟩, ⟨.map 0, none⟩] fuel = .error .custom := by
  obtain ⟨n, rfl⟩ : ∃ n, fuel = n + 3 := ⟨fuel - 3, by omega⟩
  refine ⟨?_, ?_, ?_, ?_⟩ <;>
    simp [renderJson, render_succ, renderStep, renderGuarded, mapOk, andThen, renderList_cons,
      RenderState.get, RenderState.set, List.lookup]

/-- General statement: if the root belongs to a set of keys in which every member is an array,
    map or union with a child in the set (i.e. from the root one can walk forever through
    unnamed nodes only: it lies on, or leads into, a cycle of arrays, maps and unions), regeneration fails with an error — for every sufficient fuel. -/
theorem C09_unnamed_cycle_err_general (S : SchemaMut) (C : Nat → Prop) (hC : UnnamedClosed S C)
    (h0 : C 0) (fuel : Nat) (hf : renderBound S ≤ fuel) : renderJson S fuel = .error .custom := by
  unfold renderJson
  have hnp := render_total S fuel hf 0 none
  have hcop := (render_cop_aux S fuel).1 0 none {}
  have hno := render_unnamed_cycle_not_ok S C hC fuel 0 none {}
  cases hr : render S fuel 0 none {} with
  | error e =>
    rcases hcop e hr with rfl | rfl
    · rfl
    · exact absurd hr hnp
  | ok p => exact absurd hr (hno p h0)

/-- … and it never succeeds, whatever the fuel. -/
theorem C09_unnamed_cycle_never_ok (S : SchemaMut) (C : Nat → Prop) (hC : UnnamedClosed S C)
    (h0 : C 0) (fuel : Nat) (j : Json) : renderJson S fuel ≠ .ok j := by
  unfold renderJson
  cases hr : render S fuel 0 none {} with
  | error e => intro h; cases h
  | ok p => exact absurd hr (render_unnamed_cycle_not_ok S C hC fuel 0 none {} p h0)

/-- A union node carrying a logical type makes the regeneration fail. -/
theorem C09_union_logical_err (S : SchemaMut) (fuel k : Nat) (ns : Option String)
    (st : RenderState) (vs : List Nat) (l : LogicalType)
    (h : S[k]? = some ⟨.union vs, some l⟩) :
    render S (fuel + 1) k ns st = .error .custom :=
  render_union_logical S fuel k ns st vs l h

end Avro.Theorems
