import AvroModel.Theorems.C12
import AvroModel.Theorems.C12layouts
import AvroModel.Theorems.C12canon
import AvroModel.Theorems.C12typed
/-
C12 — skipping consumes exactly what reading would, all parts together:
* `Theorems/C12.lean`: on the canonical layout of every value; a struct target lacking fields;
* `Theorems/C12layouts.lean`: on EVERY valid layout — any number of blocks, with and without byte
  sizes — the ignoring read (`IgnoredAny`), a struct lacking fields and a unit variant chosen for a
  union branch leave exactly the state the full read leaves (`C12_skip_all_layouts`,
  `C12_skip_agrees_with_read`, `C12_skip_follows_read`, `C12_struct_subset_all_layouts`,
  `C12_unit_variant_all_layouts`).  "Valid" includes that the byte size announced after a negative
  block count is the size of the block's items (`decodeX`): on an input that announces a wrong size
  reading and skipping necessarily disagree (`C12_wrong_block_size_discrepancy`: the reader that
  reads ignores the size, the reader that skips trusts it) — such an input is not a valid encoding.
-/
