import AvroModel.Lemmas.DeriveNames
/-
C20 (names) — the derived schema has ONE DEFINITION PER FULLNAME: distinct types and distinct
generic instantiations get distinct fullnames.  Model: `Impl/Derive.lean`; proof machinery:
`Lemmas/DeriveNames.lean`.

`definedNames S` (in `Lemmas/DeriveNames.lean`) is the `fq` of every record / enum / fixed node of
`S`, in node order.  The main theorem is

    schemaMut P hash fuel root = some S →
      NamesWfOn P hash (genericRecordKeys P hash fuel root) → (definedNames S).Nodup

for EVERY root type.  `NamesWfOn P hash Ks` collects what the user of `#[derive(BuildSchema)]` is
responsible for; every field is a decidable statement about the program text, except the two about
`hash`, which ask `hash` to be injective and dot-free ON THE LIST `Ks` — here the finitely many
lookup keys of generic records that the build registers (`genericRecordKeys`, computable: the keys
of `already_built_types` of the final builder state whose head is a generic record).  For a
concrete program, hash and root the whole hypothesis is decidable (see the non-vacuity examples at
the end and `NonVacuityF.lean`, where it is discharged for the hash the test driver really runs
the model with).  The earlier statement asked `hash` to be injective on ALL keys (`NamesWf`), which
no hash with finitely many values (the crate's 64-bit SipHash, the driver's relabelling hash) can
satisfy; it is kept as the corollary `C20_names_distinct_global`.

How the proof goes (`Lemmas/DeriveNames.lean`): every named node has an *origin* — `[u8; N]` on
its own, the record/enum registered under lookup key `k`, the node of a non-forwarding newtype
struct, the node owned by field `f` of the record registered under `k`, the node owned by variant
`v` of a union enum — and an *owner*, the lookup key whose construction creates it.  The builder
invariant: the names defined so far are pairwise distinct and each has an origin whose owner is
registered in `already_built_types`.  `find_or_build` registers a key before building it, so a key
is built once; what is built for a key is its own origins, each once (field names / variant
identifiers are distinct), plus what newly registered keys own.  A duplicate built for a
logical-type attribute (`build_duplicate`) is not registered; its top node is renamed to an origin
of the enclosing type, and `dupSafe` says it owns nothing else.  Finally the name is an injective
function of the origin, on the origins owned by registered keys (`NameInjOn`, derived from the
conditions on the declared names; every comparison the proof makes is between origins whose owners
are registered in some builder state of the run, and registrations are never removed).

What `NamesWf` excludes, and why:
* (necessary, witnesses `C20_owned_subnode_of_duplicated_record_collides`,
  `C20_generic_newtype_logical_collides`, `C20_generic_union_owned_collides` below)
  - a logical-type attribute on a field whose type is a record with logical-typed fields, or a
    union enum with owned variant nodes: the duplicate renames the top node only;
  - a *generic* newtype struct that does not forward (logical-type attribute or `[u8; N]` field)
    and a *generic* union enum with a variant that owns a node (logical-type attribute, or a type
    WRITTEN `[u8; N]` — open finding D24): their owned names carry no hash, so two instantiations
    collide.  (A variant whose written type is a bare type parameter is fine, also when the
    parameter is instantiated with `[u8; N]`: `C20_generic_union_param_shares_fixed`.)
* (conservative, kept out to keep the conditions textual)
  - a logical-type attribute on a field whose (pointer-stripped) type is a bare type parameter or
    a forwarding newtype struct (what gets duplicated then depends on the instantiation).
* conditions on names: the hash-independent names (`staticNames`) are non-empty, do not start
  with `.`, are pairwise distinct across declarations (this contains "distinct declarations have
  distinct `typeName`"), do not start with `u8_array_`; the name of a generic record followed by
  `_` is a prefix of no declared name and not of `u8_array_`; `hash` is injective and dot-free on
  the generic-record keys the build registers.
-/
namespace Avro.Theorems
open Avro Avro.Impl Avro.Impl.Derive
open DeriveNames

/-! ## A. One definition per fullname -/

/-- What the user of the derive macro is responsible for, with the conditions on `hash` asked on
    the list `Ks` of lookup keys only.  Fields (from `StructWf`, `TextWfOn`):
* `newtype_nongeneric`, `generic_union_safe`, `logical_dupSafe`, `field_names_nodup`,
  `variant_idents_nodup` — structure of the declarations;
* `start_ok`, `distinct`, `no_u8_array`, `generic_prefix_free` — the declared names;
* `hash_inj : ∀ k ∈ Ks, ∀ k' ∈ Ks, hash k = hash k' → k = k'`,
  `hash_nodot : ∀ k ∈ Ks, '.' ∉ (hash k).toList` — the hash appended to the name of a generic
  record.
Every field is decidable for a concrete program, hash and list. -/
structure NamesWfOn (P : Prog) (hash : Key → String) (Ks : List Key) : Prop
    extends StructWf P, TextWfOn P hash Ks

/-- The global form: `hash_inj`, `hash_nodot` about ALL keys.  Not satisfiable by a hash with
    finitely many values (`NonVacuityF.lean`, `NVF20.namesWf_unmeetable_by_finite_hash`); satisfied
    by `hashDemo`. -/
structure NamesWf (P : Prog) (hash : Key → String) : Prop extends StructWf P, TextWf P hash

theorem NamesWf.on {P : Prog} {hash : Key → String} (h : NamesWf P hash) (Ks : List Key) :
    NamesWfOn P hash Ks :=
  { toStructWf := h.toStructWf, toTextWfOn := h.toTextWf.on Ks }

/-- **C20 (names).**  The schema derived for any root type of a well-formed program defines every
    fullname once.  The hypothesis is about the program text and about `hash` on the finitely
    many generic-record keys this build registers (`genericRecordKeys P hash fuel root`, a
    computable list): decidable for a concrete program, hash, fuel and root. -/
theorem C20_names_distinct (P : Prog) (hash : Key → String) (fuel : Nat) (root : Ty) (S : SchemaMut)
    (h : schemaMut P hash fuel root = some S)
    (hW : NamesWfOn P hash (genericRecordKeys P hash fuel root)) : (definedNames S).Nodup :=
  definedNames_nodup_on hW.toStructWf
    (nameInjOn_of_textWfOn hW.toTextWfOn (fun _ hk hg => List.mem_filter.2 ⟨hk, hg⟩)) h

/-- The same with the conditions on the declared names replaced by their consequence: the
    assignment of names to origins (`Named`) is injective on the origins whose owner is a lookup
    key the build registers (`builtKeys P hash fuel root`, a computable list). -/
theorem C20_names_distinct_of_nameInj (P : Prog) (hash : Key → String) (fuel : Nat) (root : Ty)
    (S : SchemaMut) (h : schemaMut P hash fuel root = some S) (hW : StructWf P)
    (hI : NameInjOn P hash (fun k => k ∈ builtKeys P hash fuel root)) : (definedNames S).Nodup :=
  definedNames_nodup_on hW hI h

/-- Corollary, the earlier global statement: `hash` injective and dot-free on all keys (met by
    `hashDemo`, not by a hash with finitely many values). -/
theorem C20_names_distinct_global (P : Prog) (hash : Key → String) (fuel : Nat) (root : Ty)
    (S : SchemaMut) (h : schemaMut P hash fuel root = some S) (hW : NamesWf P hash) :
    (definedNames S).Nodup :=
  C20_names_distinct P hash fuel root S h (hW.on _)

/-- Corollary, the earlier global statement: the name assignment injective on all origins. -/
theorem C20_names_distinct_of_nameInj_global (P : Prog) (hash : Key → String) (fuel : Nat) (root : Ty)
    (S : SchemaMut) (h : schemaMut P hash fuel root = some S) (hW : StructWf P)
    (hI : NameInj P hash) : (definedNames S).Nodup :=
  C20_names_distinct_of_nameInj P hash fuel root S h hW (hI.on _)

/-- Bounded form of the quantifier over declarations (makes the fields of `NamesWf` decidable). -/
theorem prog_forall_iff {P : Prog} {Q : Nat → Decl → Prop} :
    (∀ (id : Nat) (d : Decl), P[id]? = some d → Q id d) ↔ ∀ i : Fin P.size, Q i P[i] := by
  constructor
  · intro h i
    exact h i P[i] (by simp)
  · intro h id d hd
    obtain ⟨hlt, rfl⟩ := Array.getElem?_eq_some_iff.1 hd
    exact h ⟨id, hlt⟩

/-! ## B. Generic instantiations -/

/-- Two instantiations of a generic record with different lookup keys get different record names. -/
theorem C20_generic_instantiations_distinct (d : Decl) (hash : Key → String)
    (hinj : ∀ k k', hash k = hash k' → k = k') (k1 k2 : Key) (hne : k1 ≠ k2) :
    typeName d ++ "_" ++ hash k1 ≠ typeName d ++ "_" ++ hash k2 := by
  intro h
  rw [String.append_assoc, String.append_assoc] at h
  exact hne (hinj _ _ (str_append_left_cancel (str_append_left_cancel h)))

/-- On closed built-in types the lookup key is injective exactly up to the crate's forwarding
    (`canon`: pointers transparent, `i8/i16/u16 ↦ i32`, `u32/u64/usize ↦ i64`, `&str ↦ String`,
    `&[u8] ↦ Vec<u8>`, `BTreeMap ↦ HashMap`). -/
theorem C20_lookupKey_builtin_inj (P : Prog) (n n' : Nat) (t t' : Ty) (k : Key) (c c' : CTy)
    (hc : canon t = some c) (hc' : canon t' = some c') (h : lookupKey P n t = some k)
    (h' : lookupKey P n' t' = some k) : c = c' :=
  ckey_inj ((lookupKey_canon P n t k c h hc).symm.trans (lookupKey_canon P n' t' k c' h' hc'))

theorem C20_lookupKey_builtin_complete (P : Prog) (t t' : Ty) (c : CTy) (hc : canon t = some c)
    (hc' : canon t' = some c) : ∃ n k, lookupKey P n t = some k ∧ lookupKey P n t' = some k := by
  obtain ⟨n, hn⟩ := lookupKey_canon_some P t c hc
  obtain ⟨n', hn'⟩ := lookupKey_canon_some P t' c hc'
  exact ⟨max n n', ckey c, lk_le P hn (Nat.le_max_left ..), lk_le P hn' (Nat.le_max_right ..)⟩

/-- Lookup keys form a prefix code; so two instantiations of a generic record that share a lookup
    key agree on the lookup type of every field. -/
theorem C20_generic_key_determines_fields (P : Prog) (id : Nat) (d : Decl) (fs : List Field)
    (args1 args2 : List Ty) (n1 n2 : Nat) (k : Key) (hP : P[id]? = some d) (hb : d.body = .record fs)
    (hn : d.nparams ≠ 0) (h1 : lookupKey P n1 (.named id args1) = some k)
    (h2 : lookupKey P n2 (.named id args2) = some k) :
    ∀ f ∈ fs, SameKey P (subst args1 (chosenTy f)) (subst args2 (chosenTy f)) :=
  generic_record_key_fields P hP hb hn h1 h2

/-- … in particular: if a field's type is the `j`-th parameter and the two argument lists put
    built-in types with different canonical forms there, the lookup keys (hence, with an injective
    `hash`, the record names) differ. -/
theorem C20_generic_keys_differ (P : Prog) (id : Nat) (d : Decl) (fs : List Field) (f : Field) (j : Nat)
    (args1 args2 : List Ty) (a1 a2 : Ty) (c1 c2 : CTy) (n1 n2 : Nat) (k1 k2 : Key)
    (hP : P[id]? = some d) (hb : d.body = .record fs) (hn : d.nparams ≠ 0) (hf : f ∈ fs)
    (hty : chosenTy f = .param j) (ha1 : args1[j]? = some a1) (ha2 : args2[j]? = some a2)
    (hc1 : canon a1 = some c1) (hc2 : canon a2 = some c2) (hne : c1 ≠ c2)
    (h1 : lookupKey P n1 (.named id args1) = some k1) (h2 : lookupKey P n2 (.named id args2) = some k2) :
    k1 ≠ k2 := by
  rintro rfl
  obtain ⟨m, m', k, hk, hk'⟩ := generic_record_key_fields P hP hb hn h1 h2 f hf
  simp only [hty, subst, ha1, ha2, Option.getD_some] at hk hk'
  exact hne (C20_lookupKey_builtin_inj P m m' a1 a2 k c1 c2 hc1 hc2 hk hk')

/-- Concretely: `i32`, `String`, `f64`, `bool`, `Vec<i64>` have pairwise distinct lookup keys. -/
theorem C20_lookupKey_samples_distinct (P : Prog) :
    ([Ty.i32, .string, .f64, .bool, .vec .i64].map (lookupKey P 2)).Nodup := by
  simp [lookupKey]

/-! ## C. Negation witnesses -/

/-! ### C1 — defect D22: owned names of a record with a namespace attribute ignored the hash -/

/-- `new_name_for_owned_subnode` before the repair of D22: for a struct field of a record with a
    namespace attribute it was `pre ++ nameIdent ++ "." ++ f`, not `recordTypeName ++ "." ++ f`. -/
def ownedNameOld (d : Decl) (kind : FieldKind) (recordTypeName : String) : String :=
  let nameIdent := d.nameOverride.getD d.ident
  match d.ns with
  | none => ownedName d kind recordTypeName
  | some ns =>
    let pre := if ns = "" then "" else ns ++ "."
    match kind with
    | .structField f => pre ++ nameIdent ++ "." ++ f
    | _ => ownedName d kind recordTypeName

/-- `#[avro_schema(namespace = "ns")] struct T0<T> { f0: T, #[logical_type = "crc32"] f1: [u8; 4] }` -/
def declT0 : Decl :=
  { ident := "T0", modulePath := "m", nparams := 1, ns := some "ns",
    body := .record [{ name := "f0", ty := .param 0 },
                     { name := "f1", ty := .byteArray 4, attr := { logical := some "crc32" } }] }

/-- `struct Outer { a: T0<i32>, b: T0<String> }` -/
def progD22 : Prog := #[declT0,
  { ident := "Outer", modulePath := "m",
    body := .record [{ name := "a", ty := .named 0 [.i32] }, { name := "b", ty := .named 0 [.string] }] }]

/-- Old naming: the fixed owned by `f1` got the same name in every instantiation of `T0`
    (whatever the runtime names `tn1`, `tn2` of the two records): a duplicate definition. -/
theorem C20_D22_old_owned_name_collides (tn1 tn2 : String) :
    ownedNameOld declT0 (.structField "f1") tn1 = "ns.T0.f1" ∧
    ownedNameOld declT0 (.structField "f1") tn2 = "ns.T0.f1" :=
  ⟨rfl, rfl⟩

/-- Current naming: different record names give different owned names (any declaration). -/
theorem C20_D22_owned_name_follows_record (d : Decl) (f tn1 tn2 : String) (h : tn1 ≠ tn2) :
    ownedName d (.structField f) tn1 ≠ ownedName d (.structField f) tn2 := by
  rw [ownedName_struct, ownedName_struct]
  intro he
  apply h
  have := congrArg String.toList he
  simp only [String.toList_append] at this
  exact String.toList_inj.1 (List.append_cancel_right (List.append_cancel_right this))

/-- The two instantiations in `progD22` do get different record names and the schema built by the
    current model has four distinct definitions. -/
theorem C20_D22_repaired_schema :
    (schemaMut progD22 hashDemo 20 (.named 1 [])).map definedNames =
      some ["m.Outer", "ns.T0_nyxxyclxxxxy", "ns.T0_nyxxyclxxxxy.f1",
            "ns.T0_nyxxyglxxxxy", "ns.T0_nyxxyglxxxxy.f1"] := by
  decide +kernel

/-! ### C2 — defect D23: the root type was appended without being registered -/

/-- `struct T1 { f2: Option<Box<T1>> }` -/
def progD23 : Prog :=
  #[{ ident := "T1", modulePath := "m", body := .record [{ name := "f2", ty := .option (.ptr (.named 0 [])) }] }]

/-- Old entry point: the recursive reference builds `T1` a second time — two record nodes `m.T1`. -/
theorem C20_D23_old_root_duplicated (hash : Key → String) :
    (schemaMutOld progD23 hash 20 (.named 0 [])).map definedNames = some ["m.T1", "m.T1"] := by
  rfl

/-- Current entry point: exactly one. -/
theorem C20_D23_root_registered (hash : Key → String) :
    (schemaMut progD23 hash 20 (.named 0 [])).map definedNames = some ["m.T1"] := by
  rfl

/-! ### C3 — the limit of the property: owned sub-node of a duplicated record (finding) -/

/-- `struct Rec { #[logical_type = "crc32"] f: [u8; 4] }`,
    `struct Outer { a: Rec, #[logical_type = "custom"] b: Rec }` -/
def progDupOwned : Prog := #[
  { ident := "Rec", modulePath := "m",
    body := .record [{ name := "f", ty := .byteArray 4, attr := { logical := some "crc32" } }] },
  { ident := "Outer", modulePath := "m",
    body := .record [{ name := "a", ty := .named 0 [] },
                     { name := "b", ty := .named 0 [], attr := { logical := some "custom" } }] }]

/-- **Finding.**  The duplicate of `Rec` built for `b` renames the record node only
    (`m.Outer.b`); the fixed it owns keeps the name `m.Rec.f` — defined twice. -/
theorem C20_owned_subnode_of_duplicated_record_collides (hash : Key → String) :
    (schemaMut progDupOwned hash 10 (.named 1 [])).map definedNames =
      some ["m.Outer", "m.Rec", "m.Rec.f", "m.Outer.b", "m.Rec.f"] := by
  rfl

theorem C20_owned_subnode_not_nodup (hash : Key → String) (S : SchemaMut)
    (h : schemaMut progDupOwned hash 10 (.named 1 []) = some S) : ¬ (definedNames S).Nodup := by
  have := C20_owned_subnode_of_duplicated_record_collides hash
  rw [h] at this
  simp only [Option.map_some, Option.some.injEq] at this
  rw [this]; decide

/-- … and this program is exactly what `logical_dupSafe` excludes. -/
theorem C20_owned_subnode_program_not_wf : ¬ StructWf progDupOwned := by
  intro h
  have := h.logical_dupSafe 1 _ rfl
    { name := "b", ty := .named 0 [], attr := { logical := some "custom" } }
    (List.mem_cons_of_mem _ (List.mem_cons_self ..)) rfl
  revert this; decide

/-! ### Two more programs outside `NamesWf` that do produce duplicates (findings) -/

/-- `struct N<T>(#[logical_type = "custom"] T)`, `struct Outer { a: N<[u8; 4]>, b: N<[u8; 5]> }` -/
def progGenericNewtype : Prog := #[
  { ident := "N", modulePath := "m", nparams := 1,
    body := .newtype { name := "0", ty := .param 0, attr := { logical := some "custom" } } },
  { ident := "Outer", modulePath := "m",
    body := .record [{ name := "a", ty := .named 0 [.byteArray 4] }, { name := "b", ty := .named 0 [.byteArray 5] }] }]

/-- **Finding.**  The node of a generic newtype struct with a logical-type attribute is renamed to
    the struct's name without a hash: two instantiations define `m.N` twice (here as fixed of
    size 4 and of size 5). -/
theorem C20_generic_newtype_logical_collides (hash : Key → String) :
    (schemaMut progGenericNewtype hash 20 (.named 1 [])).map definedNames =
      some ["m.Outer", "m.N", "m.N"] := by
  rfl

/-- `enum E<T> { A([u8; 4]), B(Vec<T>) }`, `struct Outer { a: E<i32>, b: E<String> }` -/
def progD24 : Prog := #[
  { ident := "E", modulePath := "m", nparams := 1,
    body := .union [⟨"A", "A", some { name := "0", ty := .byteArray 4 }⟩,
                    ⟨"B", "B", some { name := "0", ty := .vec (.param 0) }⟩] },
  { ident := "Outer", modulePath := "m",
    body := .record [{ name := "a", ty := .named 0 [.i32] }, { name := "b", ty := .named 0 [.string] }] }]

/-- **Finding D24.**  The fixed owned by a variant written `[u8; N]` of a *generic* union enum is
    named `<enum>.<variant>` without a hash: two instantiations define `m.E.A` twice.  (Stated for
    the injective `hashDemo`; no name here involves the hash.) -/
theorem C20_generic_union_owned_collides :
    (schemaMut progD24 hashDemo 20 (.named 1 [])).map definedNames =
      some ["m.Outer", "m.E.A", "m.E.A"] := by
  decide +kernel

/-- … which is what `generic_union_safe` excludes. -/
theorem C20_D24_program_not_wf : ¬ StructWf progD24 := by
  intro h
  have := h.generic_union_safe 0 _ rfl (by decide)
    ⟨"A", "A", some { name := "0", ty := .byteArray 4 }⟩ (List.mem_cons_self ..)
    { name := "0", ty := .byteArray 4 } rfl
  revert this; decide

/-- `enum E<T, U> { A(T), B(U) }`, `struct Outer { a: E<[u8; 4], i32>, b: E<[u8; 4], String> }` -/
def progGenericUnion : Prog := #[
  { ident := "E", modulePath := "m", nparams := 2,
    body := .union [⟨"A", "A", some { name := "0", ty := .param 0 }⟩, ⟨"B", "B", some { name := "0", ty := .param 1 }⟩] },
  { ident := "Outer", modulePath := "m",
    body := .record [{ name := "a", ty := .named 0 [.byteArray 4, .i32] },
                     { name := "b", ty := .named 0 [.byteArray 4, .string] }] }]

/-- A variant whose type is WRITTEN as a type parameter goes through `find_or_build` even when the
    parameter is instantiated with `[u8; 4]` (the macro looks at the type as written): the two
    instantiations share the one `u8_array_4`; no duplicate. -/
theorem C20_generic_union_param_shares_fixed (hash : Key → String) :
    (schemaMut progGenericUnion hash 20 (.named 1 [])).map definedNames =
      some ["m.Outer", "u8_array_4"] := by
  rfl

/-! ## D. Non-vacuity -/

/-- A generic record (with a namespace attribute and an owned fixed) instantiated twice, a
    recursive record, a union enum with an owned fixed variant and a unit variant, and a generic
    union enum `Either<L, R> { Left(L), Right(R) }` instantiated twice (once with `[u8; 4]`). -/
def progDemo : Prog := #[
  declT0,
  { ident := "T1", modulePath := "m", body := .record [{ name := "f2", ty := .option (.ptr (.named 1 [])) }] },
  { ident := "E", modulePath := "m",
    body := .union [⟨"A", "A", some { name := "0", ty := .i32 }⟩,
                    ⟨"B", "B", some { name := "0", ty := .byteArray 8 }⟩, ⟨"C", "C", none⟩] },
  { ident := "Outer", modulePath := "m",
    body := .record [{ name := "a", ty := .named 0 [.i32] }, { name := "b", ty := .named 0 [.string] },
                     { name := "c", ty := .named 1 [] }, { name := "e", ty := .named 2 [] },
                     { name := "l", ty := .named 4 [.byteArray 4, .i32] },
                     { name := "r", ty := .named 4 [.byteArray 4, .named 1 []] }] },
  { ident := "Either", modulePath := "m", nparams := 2,
    body := .union [⟨"Left", "Left", some { name := "0", ty := .param 0 }⟩,
                    ⟨"Right", "Right", some { name := "0", ty := .param 1 }⟩] }]

theorem progDemo_wf : NamesWf progDemo hashDemo where
  newtype_nongeneric := by rw [prog_forall_iff]; decide
  generic_union_safe := by rw [prog_forall_iff]; decide
  logical_dupSafe := by rw [prog_forall_iff]; decide
  field_names_nodup := by rw [prog_forall_iff]; decide
  variant_idents_nodup := by rw [prog_forall_iff]; decide
  start_ok := by rw [prog_forall_iff]; decide
  distinct := by simp only [prog_forall_iff]; decide
  no_u8_array := by rw [prog_forall_iff]; decide
  generic_prefix_free := by simp only [prog_forall_iff]; decide
  hash_inj := hashDemo_inj
  hash_nodot := hashDemo_nodot

example : NamesWf progDemo hashDemo ∧
    (schemaMut progDemo hashDemo 30 (.named 3 [])).map definedNames =
      some ["m.Outer", "ns.T0_nyxxyclxxxxy", "ns.T0_nyxxyclxxxxy.f1", "ns.T0_nyxxyglxxxxy",
            "ns.T0_nyxxyglxxxxy.f1", "m.T1", "m.E.B", "u8_array_4"] :=
  ⟨progDemo_wf, by decide +kernel⟩

example : ∃ S, schemaMut progDemo hashDemo 30 (.named 3 []) = some S ∧ (definedNames S).Nodup := by
  cases h : schemaMut progDemo hashDemo 30 (.named 3 []) with
  | none => exact absurd h (by decide +kernel)
  | some S => exact ⟨S, rfl, C20_names_distinct _ _ _ _ S h (progDemo_wf.on _)⟩

/-- The generic-record keys that build registers: the two instantiations of `T0`. -/
example : genericRecordKeys progDemo hashDemo 30 (.named 3 []) =
    [[.generic 0 2, .string, .byteArray 4], [.generic 0 2, .int, .byteArray 4]] := by decide +kernel

/-- … and the hypothesis of `C20_names_distinct` itself, by evaluation: a hash that is constant
    outside those two keys (nowhere near injective) satisfies it. -/
def hashTwo (k : Key) : String :=
  if k = [.generic 0 2, .int, .byteArray 4] then "i" else
  if k = [.generic 0 2, .string, .byteArray 4] then "s" else "other"

theorem progDemo_wfOn_hashTwo :
    NamesWfOn progDemo hashTwo (genericRecordKeys progDemo hashTwo 30 (.named 3 [])) where
  newtype_nongeneric := by rw [prog_forall_iff]; decide
  generic_union_safe := by rw [prog_forall_iff]; decide
  logical_dupSafe := by rw [prog_forall_iff]; decide
  field_names_nodup := by rw [prog_forall_iff]; decide
  variant_idents_nodup := by rw [prog_forall_iff]; decide
  start_ok := by rw [prog_forall_iff]; decide
  distinct := by simp only [prog_forall_iff]; decide
  no_u8_array := by rw [prog_forall_iff]; decide
  generic_prefix_free := by simp only [prog_forall_iff]; decide
  hash_inj := by decide +kernel
  hash_nodot := by decide +kernel

example : ∃ S, schemaMut progDemo hashTwo 30 (.named 3 []) = some S ∧ (definedNames S).Nodup := by
  cases h : schemaMut progDemo hashTwo 30 (.named 3 []) with
  | none => exact absurd h (by decide +kernel)
  | some S => exact ⟨S, rfl, C20_names_distinct _ _ _ _ S h progDemo_wfOn_hashTwo⟩

end Avro.Theorems
