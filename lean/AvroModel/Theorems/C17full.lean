import AvroModel.Theorems.C17
import AvroModel.Theorems.C17stream
import AvroModel.Theorems.C17class
import AvroModel.Theorems.C17classBig
/-
C17 — all parts together: the reader state machine (`C17.lean`) and the truncation-prefix theorem
with the real datum deserializer on a cut block, on the streaming back-end under any chunk
schedule and on the slice back-end (`C17stream.lean`).
-/
