import AvroModel.Theorems.C06
import AvroModel.Theorems.C05real
/-
C06 (the reader does not depend on the block boundaries) with the REAL datum deserializer.

`C06_reads_any_partition` and `C06_reads_single_block` (`Theorems/C06.lean`) are stated for an
abstract `datum` under `DatumOk enc datum`, which the real deserializer model
`de deExtModel cfg S fuel node depth false .any` does not satisfy (see the head of
`Theorems/C05real.lean`); they remain true, for hypothetical deserializers only.  Here the same
statements for the real `de`, the values written being `GoodVal`:
two files holding the same values partitioned differently into blocks read the same -
  * through the slice back-end: exactly, as the observations of the values, then end of stream;
  * through streaming readers, each under ANY refill schedule of its own and any allocation cap at
    least the length of its file: the same up to the `borrowed` flags (`unborrow`);
  * and the slice and the streaming reader agree with each other up to `unborrow`.
Corollaries of `C05_reads_whole_file_real`, i.e. of the two truncation theorems of
`C17stream.lean` at full length.
-/
namespace Avro.Theorems
open Avro Avro.Impl Avro.Impl.Ocf Avro.Theorems.Real

/-- **C06 (any partition into blocks, the real datum deserializer).** Null codec. -/
theorem C06_reads_any_partition_real (d : Decomp) (hn : d.isNull = true)
    (cfg : DeConfig) (S : Schema) (node : Node) (depth fuel : Nat)
    (sync : Bytes) (hsy : sync.length = 16)
    (blocks₁ blocks₂ : List (List Spec.Value)) (heq : blocks₁.flatten = blocks₂.flatten)
    (h1 : ∀ b ∈ blocks₁, BlockOk (encD S node) b) (h2 : ∀ b ∈ blocks₂, BlockOk (encD S node) b)
    (hgood : ∀ v ∈ blocks₁.flatten, GoodVal cfg S node depth fuel v) :
    let enc := encD S node
    let datum := de deExtModel cfg S fuel node depth false .any
    let file₁ := fileBody enc sync blocks₁
    let file₂ := fileBody enc sync blocks₂
    let N₁ := blocks₁.flatten.length
    let N₂ := blocks₂.flatten.length
    -- slice back-end: exactly the same, namely the observations
    readAll d datum (N₁ + 1) (openSlice sync file₁) = readAll d datum (N₂ + 1) (openSlice sync file₂) ∧
    readAll d datum (N₁ + 1) (openSlice sync file₁) = (blocks₁.flatten.map (obsD S node), .eos) ∧
    -- streaming readers, a schedule and an allocation cap each: the same up to `unborrow`
    ∀ (sched₁ : List Nat) (last₁ M₁ : Nat) (sched₂ : List Nat) (last₂ M₂ : Nat),
      file₁.length ≤ M₁ → file₂.length ≤ M₂ →
      (readAll d datum (N₁ + 1) (Stream.openReader sync file₁ sched₁ last₁ M₁)).1.map unborrow
        = (readAll d datum (N₂ + 1) (Stream.openReader sync file₂ sched₂ last₂ M₂)).1.map unborrow ∧
      (readAll d datum (N₁ + 1) (Stream.openReader sync file₁ sched₁ last₁ M₁)).1.map unborrow
        = blocks₁.flatten.map (fun v => unborrow (obsD S node v)) ∧
      (readAll d datum (N₁ + 1) (Stream.openReader sync file₁ sched₁ last₁ M₁)).2 = .eos ∧
      (readAll d datum (N₂ + 1) (Stream.openReader sync file₂ sched₂ last₂ M₂)).2 = .eos := by
  intro enc datum file₁ file₂ N₁ N₂
  obtain ⟨s1, r1⟩ := C05_reads_whole_file_real d hn cfg S node depth fuel sync hsy blocks₁ h1 hgood
  obtain ⟨s2, r2⟩ := C05_reads_whole_file_real d hn cfg S node depth fuel sync hsy blocks₂ h2
    (by rw [← heq]; exact hgood)
  refine ⟨?_, s1, ?_⟩
  · show readAll d datum (blocks₁.flatten.length + 1) _ = readAll d datum (blocks₂.flatten.length + 1) _
    rw [s1, s2, heq]
  · intro sched₁ last₁ M₁ sched₂ last₂ M₂ hM₁ hM₂
    obtain ⟨a1, a2⟩ := r1 sched₁ last₁ M₁ hM₁
    obtain ⟨b1, b2⟩ := r2 sched₂ last₂ M₂ hM₂
    refine ⟨?_, a1, a2, b2⟩
    show (readAll d datum (blocks₁.flatten.length + 1) _).1.map unborrow
      = (readAll d datum (blocks₂.flatten.length + 1) _).1.map unborrow
    rw [a1, b1, heq]

/-- **C06 (one block holding everything reads like any other partition, the real datum
    deserializer)** - empty blocks included: a block of count 0 and size 0 is legal and skipped.
    Slice back-end: equality; streaming readers: equality up to `unborrow`. -/
theorem C06_reads_single_block_real (d : Decomp) (hn : d.isNull = true)
    (cfg : DeConfig) (S : Schema) (node : Node) (depth fuel : Nat)
    (sync : Bytes) (hsy : sync.length = 16)
    (blocks : List (List Spec.Value)) (h1 : ∀ b ∈ blocks, BlockOk (encD S node) b)
    (h2 : BlockOk (encD S node) blocks.flatten)
    (hgood : ∀ v ∈ blocks.flatten, GoodVal cfg S node depth fuel v) :
    let enc := encD S node
    let datum := de deExtModel cfg S fuel node depth false .any
    let file := fileBody enc sync blocks
    let single := fileBody enc sync [blocks.flatten]
    let N := blocks.flatten.length
    readAll d datum (N + 1) (openSlice sync file) = readAll d datum (N + 1) (openSlice sync single) ∧
    ∀ (sched₁ : List Nat) (last₁ M₁ : Nat) (sched₂ : List Nat) (last₂ M₂ : Nat),
      file.length ≤ M₁ → single.length ≤ M₂ →
      (readAll d datum (N + 1) (Stream.openReader sync file sched₁ last₁ M₁)).1.map unborrow
        = (readAll d datum (N + 1) (Stream.openReader sync single sched₂ last₂ M₂)).1.map unborrow ∧
      (readAll d datum (N + 1) (Stream.openReader sync file sched₁ last₁ M₁)).2 = .eos ∧
      (readAll d datum (N + 1) (Stream.openReader sync single sched₂ last₂ M₂)).2 = .eos := by
  intro enc datum file single N
  have hflat : blocks.flatten = [blocks.flatten].flatten := by simp
  obtain ⟨e1, _, e3⟩ := C06_reads_any_partition_real d hn cfg S node depth fuel sync hsy blocks
    [blocks.flatten] hflat h1 (by intro b hb; simp at hb; subst hb; exact h2) hgood
  have hN : [blocks.flatten].flatten.length = N := by simp [N]
  constructor
  · have := e1
    simp only [hN] at this
    exact this
  · intro sched₁ last₁ M₁ sched₂ last₂ M₂ hM₁ hM₂
    obtain ⟨a1, _, a3, a4⟩ := e3 sched₁ last₁ M₁ sched₂ last₂ M₂ hM₁ hM₂
    simp only [hN] at a1 a4
    exact ⟨a1, a3, a4⟩

/-- The slice and the streaming reader agree on a well-formed file up to `unborrow` - C11 at the
    container level (`C11_container_wellformed`), in the vocabulary of `C05.lean` / `C06.lean`. -/
theorem C06_slice_reader_agree_real (d : Decomp) (hn : d.isNull = true)
    (cfg : DeConfig) (S : Schema) (node : Node) (depth fuel : Nat)
    (sync : Bytes) (hsy : sync.length = 16)
    (blocks : List (List Spec.Value)) (h1 : ∀ b ∈ blocks, BlockOk (encD S node) b)
    (hgood : ∀ v ∈ blocks.flatten, GoodVal cfg S node depth fuel v)
    (sched : List Nat) (lastChunk M : Nat)
    (hM : (fileBody (encD S node) sync blocks).length ≤ M) :
    let datum := de deExtModel cfg S fuel node depth false .any
    let file := fileBody (encD S node) sync blocks
    (readAll d datum (blocks.flatten.length + 1)
        (Stream.openReader sync file sched lastChunk M)).1.map unborrow
      = (readAll d datum (blocks.flatten.length + 1) (openSlice sync file)).1.map unborrow := by
  intro datum file
  obtain ⟨s1, r1⟩ := C05_reads_whole_file_real d hn cfg S node depth fuel sync hsy blocks h1 hgood
  rw [s1, (r1 sched lastChunk M hM).1, List.map_map]
  rfl

/-! ### Non-vacuity -/

namespace C06real
open C17stream

/-- the two-block file `[[1, 2], [300]]` of `C17stream.lean` and the single-block file
    `[[1, 2, 300]]` read the same with the real `de`: 1, 2, 300, end of stream -/
theorem ex_single :
    readAll exNull exDatum 4 (openSlice exSync (fileBody exEnc exSync exBlocks))
      = readAll exNull exDatum 4 (openSlice exSync (fileBody exEnc exSync [exBlocks.flatten])) ∧
    readAll exNull exDatum 4 (openSlice exSync (fileBody exEnc exSync exBlocks))
      = ([.i32 1, .i32 2, .i32 300], .eos) := by
  have hb : BlockOk exEnc exBlocks.flatten := by
    constructor
    · decide
    · show Spec.InI64 ((blockData exEnc [.int 1, .int 2, .int 300]).length : Int)
      simp [blockData, exEnc1, exEnc2, exEnc300]; decide
  have h := (C06_reads_single_block_real exNull rfl {} #[.int] .int 64 20 exSync rfl exBlocks
    exBlockOk hb exGood).1
  have h' := (C05_reads_whole_file_real exNull rfl {} #[.int] .int 64 20 exSync rfl exBlocks
    exBlockOk exGood).1
  exact ⟨h, by rw [← C05real.exObs]; exact h'⟩

end C06real

end Avro.Theorems
