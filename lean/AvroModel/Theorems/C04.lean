import AvroModel.Lemmas.DeBounds
/-
C04 (robustness of datum deserialization) on the model `AvroModel/Impl/De.lean`, and the C03
rejection classes of the slice back-end.

 1. `C04_rest_suffix`      the deserializer only ever drops a prefix of the unread input;
 2. `C04_seq_limit`, `C04_seq_items`, `C04_map_entries`
                           the block reader never admits more than `max_seq_size` items;
 3. `C04_depth_zero*`, `C04_descent_*`, `C04_depth_nesting`
                           every descent into a compound node goes through the depth budget, and
                           the value produced nests no deeper than the budget;
 4. `C04_fuel_sufficient`, `C04_fuel_independent`, `C04_fuel_mono`
                           above the explicit bound `fuelBound`, which does not depend on the
                           input bytes, the model fuel is irrelevant (bounded recursion / work);
    `C04_scratch_bounded`  the input-driven allocation stays within the configured cap;
    `C04_no_panic`, `C04_ok_or_err`
                           for a schema whose keys are in bounds the outcome is `Ok` or `Err`
                           (custom or I/O), never a panic, on every input and back-end;
 5. `C03_*`                malformed inputs are rejected with a (non-I/O) error.
All proofs are in `AvroModel/Lemmas/DeBounds.lean`.
-/
namespace Avro.Theorems
open Avro Avro.Impl

/-! ### 1. Input monotonicity -/

/-- Every read primitive only drops a prefix of the unread input, on both back-ends and
    whatever the outcome. -/
theorem C04_primitives_suffix :
    (∀ k, Mono (readSome k)) ∧ (∀ f k acc, Mono (readExactR f k acc)) ∧ (∀ k, Mono (readExact k)) ∧
    (∀ t, Mono (readVarint t)) ∧ (∀ n, Mono (readSlice n)) ∧ (∀ n, Mono (skipBytes n)) ∧
    Mono readLen ∧ Mono readString ∧ Mono readBytes ∧ Mono readBool ∧
    (∀ ign fuel, Mono (readBlockLen ign fuel)) ∧ (∀ cfg ign bs, Mono (hasMore cfg ign bs)) ∧
    (∀ ext mode hint, Mono (readDecimal ext mode hint)) :=
  ⟨Mono.readSome, Mono.readExactR, Mono.readExact, Mono.readVarint, Mono.readSlice, Mono.skipBytes,
   Mono.readLen, Mono.readString, Mono.readBytes, Mono.readBool, Mono.readBlockLen, Mono.hasMore,
   Mono.readDecimal⟩

/-- **C04, input monotonicity.** Whatever the schema, the bytes, the target, the limits and the
    back-end (slice or chunked reader), and whether it succeeds or fails, the deserializer leaves
    a suffix of the input it was given: it never reads outside its input and never un-reads. -/
theorem C04_rest_suffix (ext : DeExt) (cfg : DeConfig) (S : Schema) (fuel : Nat) (node : Node)
    (depth : Nat) (favor : Bool) (h : Hint) (s : RState) :
    ∃ consumed, s.rest = consumed ++ (de ext cfg S fuel node depth favor h s).2.rest := by
  obtain ⟨t, ht⟩ := (Mono.deAll ext cfg S fuel).1 node depth favor h s
  exact ⟨t, ht.symm⟩

theorem C04_rest_length_le (ext : DeExt) (cfg : DeConfig) (S : Schema) (fuel : Nat) (node : Node)
    (depth : Nat) (favor : Bool) (h : Hint) (s : RState) :
    (de ext cfg S fuel node depth favor h s).2.rest.length ≤ s.rest.length :=
  ((Mono.deAll ext cfg S fuel).1 node depth favor h s).length_le

/-- The same for the other entry points of the mutual block. -/
theorem C04_rest_suffix_all (ext : DeExt) (cfg : DeConfig) (S : Schema) (fuel : Nat) :
    (∀ node depth vs, Mono (deTypeNameEnum ext cfg S fuel node depth vs)) ∧
    (∀ node depth h, Mono (deAny ext cfg S fuel node depth h)) ∧
    (∀ node depth, Mono (deIgnored ext cfg S fuel node depth)) ∧
    (∀ item depth ign eh mi bs acc, Mono (deSeqLoop ext cfg S fuel item depth ign eh mi bs acc)) ∧
    (∀ item depth ign h bs acc, Mono (deMapLoop ext cfg S fuel item depth ign h bs acc)) ∧
    (∀ fields depth h acc, Mono (deRecordFields ext cfg S fuel fields depth h acc)) :=
  (Mono.deAll ext cfg S fuel).2

/-! ### 2. The sequence limit -/

/-- **C04, `max_seq_size`.** When the block reader announces another item, the running total of
    announced items is within the configured maximum. -/
theorem C04_seq_limit (cfg : DeConfig) (ignored : Bool) (bs bs' : BlockState) (s s' : RState)
    (hbs : bs.nRead ≤ cfg.maxSeqSize)
    (h : hasMore cfg ignored bs s = (.ok (true, bs'), s')) : bs'.nRead ≤ cfg.maxSeqSize :=
  (hasMore_true cfg ignored bs bs' s s' h).1 hbs

/-- A block whose count would push the total over the maximum is rejected with `Err`. -/
theorem C04_seq_limit_reject (cfg : DeConfig) (ignored : Bool) (bs : BlockState) (s s' : RState)
    (l : Nat) (hcur : bs.current = 0)
    (hl : readBlockLen ignored (s.rest.length + 2) s = (.ok (some l), s'))
    (hover : bs.nRead + l > cfg.maxSeqSize) :
    hasMore cfg ignored bs s = (.error .custom, s') := by
  unfold hasMore
  simp only [hcur, hl, hover, if_true]

/-- An array never yields more than `max_seq_size` items. -/
theorem C04_seq_items (ext : DeExt) (cfg : DeConfig) (S : Schema) (fuel : Nat) (item : Node)
    (depth : Nat) (ign : Bool) (eh : Hint) (mi : Option Nat) (s : RState) (items : List Out)
    (h : (deSeqLoop ext cfg S fuel item depth ign eh mi {} [] s).1 = .ok items) :
    items.length ≤ cfg.maxSeqSize := by
  cases hr : deSeqLoop ext cfg S fuel item depth ign eh mi {} [] s with
  | mk r s' =>
    rw [hr] at h
    simp only at h
    subst h
    exact deSeqLoop_length ext cfg S fuel item depth ign eh mi {} [] s s' items
      (Nat.zero_le _) rfl hr

/-- A map never yields more than `max_seq_size` entries. -/
theorem C04_map_entries (ext : DeExt) (cfg : DeConfig) (S : Schema) (fuel : Nat) (item : Node)
    (depth : Nat) (ign : Bool) (h : Hint) (s : RState) (entries : List (Out × Out))
    (hok : (deMapLoop ext cfg S fuel item depth ign h {} [] s).1 = .ok entries) :
    entries.length ≤ cfg.maxSeqSize := by
  cases hr : deMapLoop ext cfg S fuel item depth ign h {} [] s with
  | mk r s' =>
    rw [hr] at hok
    simp only at hok
    subst hok
    exact deMapLoop_length ext cfg S fuel item depth ign h {} [] s s' entries
      (Nat.zero_le _) rfl hr


/-! ### 3. The depth budget -/

/-- **C04, depth limit (rejection).** With a zero depth budget an array, a map or a record is
    never deserialized, whatever the target asks for (`deserialize_any`, an option, an enum,
    `IgnoredAny`, …) and whatever the input: the result is `Err`. -/
theorem C04_depth_zero (ext : DeExt) (cfg : DeConfig) (S : Schema) (fuel : Nat) (node : Node)
    (favor : Bool) (h : Hint) (s : RState) (o : Out) (hc : node.isContainer = true) :
    (de ext cfg S fuel node 0 favor h s).1 ≠ .ok o :=
  (depth_zero_all ext cfg S fuel).1 node favor h hc s o

/-- The same for `deserialize_any` on each of the four compound kinds (a union is rejected after
    its discriminant has been read) and for `deserialize_ignored_any`. -/
theorem C04_depth_zero_any (ext : DeExt) (cfg : DeConfig) (S : Schema) (fuel : Nat) (node : Node)
    (h : Hint) (s : RState) (o : Out)
    (hc : node.isContainer = true ∨ ∃ vs, node = .union vs) :
    (deAny ext cfg S fuel node 0 h s).1 ≠ .ok o := by
  rcases hc with hc | ⟨vs, rfl⟩
  · exact (depth_zero_all ext cfg S fuel).2.2.1 node h hc s o
  · exact depth_zero_union ext cfg S fuel vs h s o

theorem C04_depth_zero_ignored (ext : DeExt) (cfg : DeConfig) (S : Schema) (fuel : Nat)
    (node : Node) (s : RState) (o : Out) (hc : node.isContainer = true) :
    (deIgnored ext cfg S fuel node 0 s).1 ≠ .ok o :=
  (depth_zero_all ext cfg S fuel).2.2.2 node hc s o

/-- With a zero budget and a well-formed schema the rejection is the crate's custom error. -/
theorem C04_depth_zero_array (ext : DeExt) (cfg : DeConfig) (S : Schema) (fuel k : Nat)
    (item : Node) (hk : S[k]? = some item) (h : Hint) (s : RState) :
    deAny ext cfg S (fuel + 1) (.array k) 0 h s = (.error .custom, s) := by
  simp only [deAny, hk]; rfl

theorem C04_depth_zero_map (ext : DeExt) (cfg : DeConfig) (S : Schema) (fuel k : Nat)
    (item : Node) (hk : S[k]? = some item) (h : Hint) (s : RState) :
    deAny ext cfg S (fuel + 1) (.map k) 0 h s = (.error .custom, s) := by
  simp only [deAny, hk]; rfl

theorem C04_depth_zero_record (ext : DeExt) (cfg : DeConfig) (S : Schema) (fuel : Nat)
    (nm : Name) (fields : List (String × Nat)) (h : Hint) (s : RState) :
    deAny ext cfg S (fuel + 1) (.record nm fields) 0 h s = (.error .custom, s) := by
  simp only [deAny]; rfl

/-- **C04, depth limit (accounting).** Each descent into a compound node runs the children with
    the budget decremented by exactly one. -/
theorem C04_descent_array (ext : DeExt) (cfg : DeConfig) (S : Schema) (fuel k : Nat) (item : Node)
    (hk : S[k]? = some item) (depth : Nat) (h : Hint) :
    deAny ext cfg S (fuel + 1) (.array k) (depth + 1) h
      = (do let items ← deSeqLoop ext cfg S fuel item depth false h.elem h.maxItems {} []
            pure (.seq items)) := by
  simp only [deAny, hk]; rfl

theorem C04_descent_map (ext : DeExt) (cfg : DeConfig) (S : Schema) (fuel k : Nat) (item : Node)
    (hk : S[k]? = some item) (depth : Nat) (h : Hint) :
    deAny ext cfg S (fuel + 1) (.map k) (depth + 1) h
      = (do let entries ← deMapLoop ext cfg S fuel item depth false h {} []
            pure (.map entries)) := by
  simp only [deAny, hk]; rfl

theorem C04_descent_record (ext : DeExt) (cfg : DeConfig) (S : Schema) (fuel : Nat) (nm : Name)
    (fields : List (String × Nat)) (depth : Nat) (h : Hint) :
    deAny ext cfg S (fuel + 1) (.record nm fields) (depth + 1) h
      = (do let entries ← deRecordFields ext cfg S fuel fields depth h []
            pure (.map entries)) := by
  simp only [deAny]; rfl

theorem C04_descent_union (ext : DeExt) (cfg : DeConfig) (S : Schema) (fuel : Nat) (vs : List Nat)
    (depth : Nat) (h : Hint) :
    deAny ext cfg S (fuel + 1) (.union vs) (depth + 1) h
      = (do let d ← readDiscriminant
            match vs[d]? with
            | none => DeM.fail .custom
            | some k =>
              match S[k]? with
              | none => DeM.fail .panic
              | some variant => deAny ext cfg S fuel variant depth h) := by
  simp only [deAny]; rfl


/-- **C04, depth limit (semantic form).** A value that is successfully deserialized with depth
    budget `depth` nests sequences and maps (arrays, maps, records of the datum) at most
    `depth + 1` deep — the `+ 1` is the flat sequence/map a `duration` is presented as, which
    costs no budget. Anything nested deeper has been rejected with `Err`.
    (`Out.nesting` counts `seq`/`map` levels; `some` and `variant` are transparent.) -/
theorem C04_depth_nesting (ext : DeExt) (cfg : DeConfig) (S : Schema) (fuel : Nat) (node : Node)
    (depth : Nat) (favor : Bool) (h : Hint) (s s' : RState) (o : Out)
    (hok : de ext cfg S fuel node depth favor h s = (.ok o, s')) : o.nesting ≤ depth + 1 :=
  (nesting_all ext cfg S fuel).1 node depth favor h s o s' hok

/-! ### 4. Termination: the model fuel is irrelevant above an explicit, input-independent bound -/

/-- **C04, bounded work (one step).** With at least `fuelBound cfg S h depth` units of fuel —
    `depth * (max_seq_size + maxFields S + 4) + 2 * h.size + 2`, a number that depends on the
    limits, the schema's widest record and the target, but *not* on the input bytes — one more
    unit of fuel changes nothing: same result, same final state, on every input and back-end.
    (`nodeFields node ≤ maxFields S` holds for every node of `S`, see the corollary below.) -/
theorem C04_fuel_sufficient (ext : DeExt) (cfg : DeConfig) (S : Schema) (fuel : Nat) (node : Node)
    (depth : Nat) (favor : Bool) (h : Hint) (hnode : nodeFields node ≤ maxFields S)
    (hf : fuelBound cfg S h depth ≤ fuel) :
    de ext cfg S fuel node depth favor h = de ext cfg S (fuel + 1) node depth favor h :=
  (fuel_step ext cfg S (levelCost cfg S) (fun d => d * levelCost cfg S) (Nat.le_refl _)
    (fun d => by simp only [Nat.succ_mul]; exact Nat.le_refl _) fuel).1 node depth favor h hnode hf

/-- **C04, bounded work.** Every amount of fuel above the bound gives the result obtained with
    exactly the bound: the recursion of the deserializer never goes deeper than the bound, so the
    fuel-exhaustion arm of the model is never what decides the outcome. -/
theorem C04_fuel_independent (ext : DeExt) (cfg : DeConfig) (S : Schema) (fuel : Nat) (node : Node)
    (depth : Nat) (favor : Bool) (h : Hint) (hnode : nodeFields node ≤ maxFields S)
    (hf : fuelBound cfg S h depth ≤ fuel) :
    de ext cfg S fuel node depth favor h
      = de ext cfg S (fuelBound cfg S h depth) node depth favor h := by
  induction hf with
  | refl => rfl
  | step hle ih => rw [← C04_fuel_sufficient ext cfg S _ node depth favor h hnode hle, ih]

/-- The same when the root node is a node of the schema (the only way the crate calls it). -/
theorem C04_fuel_independent_root (ext : DeExt) (cfg : DeConfig) (S : Schema) (fuel : Nat)
    (k : Nat) (node : Node) (hk : S[k]? = some node) (depth : Nat) (favor : Bool) (h : Hint)
    (hf : fuelBound cfg S h depth ≤ fuel) :
    de ext cfg S fuel node depth favor h
      = de ext cfg S (fuelBound cfg S h depth) node depth favor h :=
  C04_fuel_independent ext cfg S fuel node depth favor h (nodeFields_le hk) hf

/-- **Fuel monotonicity** (no bound, no hypothesis on the schema): a run that does not end in
    `panic` is unchanged by any amount of additional fuel.  Hence, by `C04_fuel_independent`, if
    *some* amount of fuel gives `Ok`/`Err`, the bound gives the same `Ok`/`Err`, and a `panic`
    obtained at or above the bound is obtained with every amount of fuel (it is a schema key out
    of bounds, not fuel exhaustion). -/
theorem C04_fuel_mono (ext : DeExt) (cfg : DeConfig) (S : Schema) {fuel fuel' : Nat}
    (hle : fuel ≤ fuel') (node : Node) (depth : Nat) (favor : Bool) (h : Hint) (s : RState)
    (hnp : (de ext cfg S fuel node depth favor h s).1 ≠ .error .panic) :
    de ext cfg S fuel' node depth favor h s = de ext cfg S fuel node depth favor h s :=
  de_refines_le ext cfg S hle node depth favor h s hnp

/-- A `panic` at or above the bound is a `panic` with every amount of fuel. -/
theorem C04_panic_not_fuel (ext : DeExt) (cfg : DeConfig) (S : Schema) (fuel fuel' : Nat)
    (node : Node) (depth : Nat) (favor : Bool) (h : Hint) (s : RState)
    (hnode : nodeFields node ≤ maxFields S) (hf : fuelBound cfg S h depth ≤ fuel)
    (hp : (de ext cfg S fuel node depth favor h s).1 = .error .panic) :
    (de ext cfg S fuel' node depth favor h s).1 = .error .panic := by
  rw [C04_fuel_independent ext cfg S fuel node depth favor h hnode hf] at hp
  by_cases hle : fuelBound cfg S h depth ≤ fuel'
  · rw [C04_fuel_independent ext cfg S fuel' node depth favor h hnode hle]; exact hp
  · apply Classical.byContradiction
    intro hnp
    have := C04_fuel_mono ext cfg S (Nat.le_of_not_le hle) node depth favor h s hnp
    rw [this] at hp
    exact hnp hp

/-! ### 4b. Memory -/

/-- **C04, bounded allocation.** The only allocation whose size is read from the input is the
    scratch buffer of the reader back-end (`read_slice` of a length-delimited value that is not
    already buffered). Whatever the input says, after deserialization it is no larger than the
    configured cap (`max_alloc_size`, 512 MiB by default) or than it was before; the cap itself is
    never changed. -/
theorem C04_scratch_bounded (ext : DeExt) (cfg : DeConfig) (S : Schema) (fuel : Nat) (node : Node)
    (depth : Nat) (favor : Bool) (h : Hint) (s : RState) :
    (de ext cfg S fuel node depth favor h s).2.maxAlloc = s.maxAlloc ∧
    (de ext cfg S fuel node depth favor h s).2.scratch ≤ max s.scratch s.maxAlloc :=
  (MemOK.deAll ext cfg S fuel).1 node depth favor h s

/-- A length above the cap is refused by `read_slice` on the reader back-end before anything is
    allocated (unless the bytes are already in the buffer). -/
theorem C04_alloc_cap_reject (n : Nat) (s s' : RState) (buf : Bytes) (hs : s.isSlice = false)
    (hf : fillBuf s = (.ok buf, s')) (hbuf : ¬ n ≤ buf.length) (hcap : n > s'.maxAlloc) :
    readSlice n s = (.error .custom, s') := by
  unfold readSlice
  simp only [hs, Bool.false_eq_true, if_false, hf, hbuf, hcap, if_true]

/-! ### 4c. No panic -/

/-- **C04, no panic.** For a schema whose keys are in bounds (what freezing a schema checks), a
    root node of that schema, *every* input, back-end, target and configuration: with fuel at
    least the bound the model never ends in the `panic` class — neither an `expect`/`unwrap`
    site nor fuel exhaustion. -/
theorem C04_no_panic (ext : DeExt) (cfg : DeConfig) (S : Schema) (hS : S.keysInBounds = true)
    (fuel : Nat) (node : Node) (hnode : NodeOK S node) (depth : Nat) (favor : Bool) (h : Hint)
    (hf : fuelBound cfg S h depth ≤ fuel) (s : RState) :
    (de ext cfg S fuel node depth favor h s).1 ≠ .error .panic :=
  (nopanic_all ext cfg S hS (levelCost cfg S) (fun d => d * levelCost cfg S) (Nat.le_refl _)
    (fun d => by simp only [Nat.succ_mul]; exact Nat.le_refl _) fuel).1 node depth favor h hnode hf s

theorem C04_no_panic_root (ext : DeExt) (cfg : DeConfig) (S : Schema) (hS : S.keysInBounds = true)
    (fuel k : Nat) (node : Node) (hk : S[k]? = some node) (depth : Nat) (favor : Bool) (h : Hint)
    (hf : fuelBound cfg S h depth ≤ fuel) (s : RState) :
    (de ext cfg S fuel node depth favor h s).1 ≠ .error .panic :=
  C04_no_panic ext cfg S hS fuel node (nodeOK_of_get hS hk) depth favor h hf s

/-- **C04, `Ok` or `Err`.** The outcome is a value, or an error of the crate's custom class, or an
    I/O error of the underlying reader — nothing else. -/
theorem C04_ok_or_err (ext : DeExt) (cfg : DeConfig) (S : Schema) (hS : S.keysInBounds = true)
    (fuel k : Nat) (node : Node) (hk : S[k]? = some node) (depth : Nat) (favor : Bool) (h : Hint)
    (hf : fuelBound cfg S h depth ≤ fuel) (s : RState) :
    (∃ o, (de ext cfg S fuel node depth favor h s).1 = .ok o) ∨
    (de ext cfg S fuel node depth favor h s).1 = .error .custom ∨
    (de ext cfg S fuel node depth favor h s).1 = .error .io := by
  have hnp := C04_no_panic_root ext cfg S hS fuel k node hk depth favor h hf s
  cases hr : (de ext cfg S fuel node depth favor h s).1 with
  | ok o => exact Or.inl ⟨o, rfl⟩
  | error e =>
    rw [hr] at hnp
    cases e with
    | custom => exact Or.inr (Or.inl rfl)
    | io => exact Or.inr (Or.inr rfl)
    | panic => exact absurd rfl hnp

/-! ### 5. C03: rejection classes on the slice back-end -/

theorem readVarint_slice (t : VarTy) (s : RState) (hs : s.isSlice = true) :
    readVarint t s = match decodeVar t s.rest with
      | none => (.error .custom, s)
      | some (v, k) => (.ok v, { s with rest := s.rest.drop k }) := by
  unfold readVarint
  rw [if_pos hs]
  rfl

theorem readLen_slice_neg (s : RState) (hs : s.isSlice = true) (v : Int) (k : Nat)
    (hd : decodeVar .i64 s.rest = some (v, k)) (hneg : v < 0) :
    readLen s = (.error .custom, { s with rest := s.rest.drop k }) := by
  unfold readLen
  simp only [DeM.bind_apply, readVarint_slice _ s hs, hd, hneg, if_true, DeM.fail_apply]

theorem readLen_slice_ok (s : RState) (hs : s.isSlice = true) (v : Int) (k : Nat)
    (hd : decodeVar .i64 s.rest = some (v, k)) (hnn : 0 ≤ v) :
    readLen s = (.ok v.toNat, { s with rest := s.rest.drop k }) := by
  unfold readLen
  have : ¬ v < 0 := by omega
  simp only [DeM.bind_apply, readVarint_slice _ s hs, hd, this, if_false, DeM.pure_apply]

theorem readLen_slice_none (s : RState) (hs : s.isSlice = true)
    (hd : decodeVar .i64 s.rest = none) :
    readLen s = (.error .custom, s) := by
  unfold readLen
  simp only [DeM.bind_apply, readVarint_slice _ s hs, hd]

/-- **C03, negative length.** -/
theorem C03_negative_length (s : RState) (hs : s.isSlice = true) (v : Int) (k : Nat)
    (hd : decodeVar .i64 s.rest = some (v, k)) (hneg : v < 0) :
    (readLen s).1 = .error .custom := by
  rw [readLen_slice_neg s hs v k hd hneg]

/-- **C03, end of input** in a length-delimited read. -/
theorem C03_eof_slice (s : RState) (hs : s.isSlice = true) (n : Nat) (hn : n > s.rest.length) :
    readSlice n s = (.error .custom, s) := by
  unfold readSlice
  simp only [hs, if_true, hn]

theorem decodeVar_nil (t : VarTy) : decodeVar t [] = none := by
  cases t <;> rfl

/-- **C03, end of input** in a varint. -/
theorem C03_eof_varint (t : VarTy) (s : RState) (hs : s.isSlice = true) (hr : s.rest = []) :
    readVarint t s = (.error .custom, s) := by
  rw [readVarint_slice t s hs, hr, decodeVar_nil]

/-- **C03, invalid boolean.** -/
theorem C03_bad_bool (s : RState) (hs : s.isSlice = true) (b : UInt8) (tl : Bytes)
    (hr : s.rest = b :: tl) (h0 : b ≠ 0) (h1 : b ≠ 1) :
    (readBool s).1 = .error .custom := by
  unfold readBool readSlice
  simp only [DeM.bind_apply, hs, if_true, hr, List.length_cons]
  have : ¬ (1 > tl.length + 1) := by omega
  simp only [this, if_false, List.take_succ_cons, List.take_zero]
  refine congrArg Prod.fst (congrFun (?_ : _ = DeM.fail DeErr.custom) _)
  split
  · next heq => simp only [List.cons.injEq, and_true] at heq; exact absurd heq h0
  · next heq => simp only [List.cons.injEq, and_true] at heq; exact absurd heq h1
  · rfl

/-- **C03, invalid UTF-8.** -/
theorem C03_bad_utf8 (s : RState) (hs : s.isSlice = true) (v : Int) (k : Nat)
    (hd : decodeVar .i64 s.rest = some (v, k)) (hnn : 0 ≤ v)
    (hlen : v.toNat ≤ (s.rest.drop k).length)
    (hbad : bytesToStr? ((s.rest.drop k).take v.toNat) = none) :
    (readString s).1 = .error .custom := by
  unfold readString
  simp only [DeM.bind_apply, readLen_slice_ok s hs v k hd hnn]
  unfold readSlice
  have : ¬ (v.toNat > (s.rest.drop k).length) := by omega
  simp only [hs, if_true, this, if_false, hbad, DeM.fail_apply]

/-- **C03, union discriminant out of range** (negative or not a branch index). -/
theorem C03_union_index (ext : DeExt) (cfg : DeConfig) (S : Schema) (fuel : Nat) (vs : List Nat)
    (depth : Nat) (h : Hint) (s : RState) (hs : s.isSlice = true) (v : Int) (k : Nat)
    (hd : decodeVar .i64 s.rest = some (v, k)) (hbad : v < 0 ∨ vs.length ≤ v.toNat) :
    (deAny ext cfg S (fuel + 1) (.union vs) depth h s).1 = .error .custom := by
  simp only [deAny, readDiscriminant, DeM.bind_apply]
  by_cases hneg : v < 0
  · rw [readLen_slice_neg s hs v k hd hneg]
  · have hnn : 0 ≤ v := by omega
    have hlen : vs.length ≤ v.toNat := by omega
    rw [readLen_slice_ok s hs v k hd hnn]
    simp only [List.getElem?_eq_none hlen, DeM.fail_apply]

/-- **C03, enum discriminant out of range.** -/
theorem C03_enum_index (ext : DeExt) (cfg : DeConfig) (S : Schema) (fuel : Nat) (nm : Name)
    (syms : List String) (depth : Nat) (h : Hint) (s : RState) (hs : s.isSlice = true) (v : Int)
    (k : Nat) (hd : decodeVar .i64 s.rest = some (v, k)) (hbad : v < 0 ∨ syms.length ≤ v.toNat) :
    (deAny ext cfg S (fuel + 1) (.enum nm syms) depth h s).1 = .error .custom := by
  simp only [deAny, readDiscriminant, DeM.bind_apply]
  by_cases hneg : v < 0
  · rw [readLen_slice_neg s hs v k hd hneg]
  · have hnn : 0 ≤ v := by omega
    have hlen : syms.length ≤ v.toNat := by omega
    rw [readLen_slice_ok s hs v k hd hnn]
    simp only [List.getElem?_eq_none hlen, DeM.fail_apply]

end Avro.Theorems
