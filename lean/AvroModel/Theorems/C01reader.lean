import AvroModel.Theorems.C01glue
import AvroModel.Theorems.C03reader
/-
C01 on the STREAMING-READER back-end: what the serializer writes, read back through a reader
with ANY refill schedule, gives the observation of the value — up to the `borrowed` flags — and
leaves exactly what followed.

`Theorems/C01de.lean` (`C01_de_accepts*`: the deserializer accepts every canonical encoding) and
`Theorems/C01glue.lean` (`C01_roundtrip_impl*`: `ser` then `de`) are about the slice back-end.
Here they are transferred through C11 (`Lemmas/ReaderTransfer.lean`), with the conventions of
`Theorems/C03reader.lean`:
  * state hypotheses `r.isSlice = false`, `r.limit = none`, `r.avail ≤ r.rest.length`,
    `r.rest.length ≤ r.maxAlloc` (instead of `isSlice = true`, `limit = none`, `avail = 0`);
  * the value is `observe v` up to `unborrow` (the reader copies the strings the slice lends:
    `C01reader_value_not_equal`);
  * `r'.rest = rest` exactly, and `ReaderOK r'` instead of `r' = { r with rest := rest }`
    (`avail`, `sched`, `scratch` of the final state depend on the schedule).
The side condition `ha : s.avail = 0` of the slice theorems, which is needed there only for the
stated final state (`C01_avail_counterexample`), has no counterpart: any buffer position
`avail ≤ rest.length` is allowed.
-/
namespace Avro.Theorems
open Avro Avro.Impl Avro.Spec

/-! ### The deserializer accepts canonical encodings, reader back-end -/

/-- **C01 (deserializer accepts canonical encodings), streaming reader**, sharp fuel bound. -/
theorem C01_de_accepts_fuel3_reader (cfg : DeConfig) (S : Schema) (n : Node) (v : Spec.Value)
    (enc rest : Bytes) (o : Out) (depth : Nat)
    (henc : Spec.encode S n v = some enc) (hobs : Spec.observe S n v = some o)
    (hfix : Spec.fixedDecOk S n v = true)
    (hdepth : Spec.depthOf v ≤ depth) (hseq : Spec.maxLen v ≤ cfg.maxSeqSize)
    (fuel : Nat) (hfuel : 3 * Spec.size v ≤ fuel)
    (r : RState) (hs : r.isSlice = false) (hl : r.limit = none) (ha : r.avail ≤ r.rest.length)
    (hm : r.rest.length ≤ r.maxAlloc) (hr : r.rest = enc ++ rest) :
    ∃ o' r', de deExtModel cfg S fuel n depth false .any r = (.ok o', r') ∧
      unborrow o' = unborrow o ∧ r'.rest = rest ∧ ReaderOK r' :=
  de_reader_of_slice deExtModel cfg S fuel n depth false .any ⟨hs, hl, ha, hm⟩
    (C01_de_accepts_fuel3 cfg S n v enc rest o depth henc hobs hfix hdepth hseq fuel hfuel
      (sliceOf r) rfl hl rfl hr)

/-- **C01 (deserializer accepts canonical encodings), streaming reader.**  The statement of
    `C01_de_accepts` for a reader state with any refill schedule. -/
theorem C01_de_accepts_reader (cfg : DeConfig) (S : Schema) (n : Node) (v : Spec.Value)
    (enc rest : Bytes) (o : Out) (depth : Nat)
    (henc : Spec.encode S n v = some enc) (hobs : Spec.observe S n v = some o)
    (hfix : Spec.fixedDecOk S n v = true)
    (hdepth : Spec.depthOf v ≤ depth) (hseq : Spec.maxLen v ≤ cfg.maxSeqSize)
    (fuel : Nat) (hfuel : Spec.size v * 4 + 8 ≤ fuel)
    (r : RState) (hs : r.isSlice = false) (hl : r.limit = none) (ha : r.avail ≤ r.rest.length)
    (hm : r.rest.length ≤ r.maxAlloc) (hr : r.rest = enc ++ rest) :
    ∃ o' r', de deExtModel cfg S fuel n depth false .any r = (.ok o', r') ∧
      unborrow o' = unborrow o ∧ r'.rest = rest ∧ ReaderOK r' :=
  C01_de_accepts_fuel3_reader cfg S n v enc rest o depth henc hobs hfix hdepth hseq fuel (by omega)
    r hs hl ha hm hr

/-- The same with the side condition on fixed decimals stated on the schema. -/
theorem C01_de_accepts_schema_reader (cfg : DeConfig) (S : Schema) (n : Node) (v : Spec.Value)
    (enc rest : Bytes) (o : Out) (depth : Nat)
    (henc : Spec.encode S n v = some enc) (hobs : Spec.observe S n v = some o)
    (hS : Schema.fixedDecFits S) (hn : n.fixedDecFits = true)
    (hdepth : Spec.depthOf v ≤ depth) (hseq : Spec.maxLen v ≤ cfg.maxSeqSize)
    (fuel : Nat) (hfuel : Spec.size v * 4 + 8 ≤ fuel)
    (r : RState) (hs : r.isSlice = false) (hl : r.limit = none) (ha : r.avail ≤ r.rest.length)
    (hm : r.rest.length ≤ r.maxAlloc) (hr : r.rest = enc ++ rest) :
    ∃ o' r', de deExtModel cfg S fuel n depth false .any r = (.ok o', r') ∧
      unborrow o' = unborrow o ∧ r'.rest = rest ∧ ReaderOK r' :=
  de_reader_of_slice deExtModel cfg S fuel n depth false .any ⟨hs, hl, ha, hm⟩
    (C01_de_accepts_schema cfg S n v enc rest o depth henc hobs hS hn hdepth hseq fuel hfuel
      (sliceOf r) rfl hl rfl hr)

/-- Whole-input form: the encoding alone, behind a fresh reader with any chunk schedule, any
    scratch size and an allocation cap that covers it, is consumed entirely. -/
theorem C01_de_accepts_nil_reader (cfg : DeConfig) (S : Schema) (n : Node) (v : Spec.Value)
    (enc : Bytes) (o : Out)
    (henc : Spec.encode S n v = some enc) (hobs : Spec.observe S n v = some o)
    (hfix : Spec.fixedDecOk S n v = true)
    (hdepth : Spec.depthOf v ≤ cfg.allowedDepth) (hseq : Spec.maxLen v ≤ cfg.maxSeqSize)
    (sched : List Nat) (lastChunk maxAlloc scratch : Nat) (hm : enc.length ≤ maxAlloc) :
    ∃ o' r', de deExtModel cfg S (Spec.size v * 4 + 8) n cfg.allowedDepth false .any
        { isSlice := false, rest := enc, avail := 0, sched := sched, lastChunk := lastChunk,
          maxAlloc := maxAlloc, scratch := scratch, limit := none } = (.ok o', r') ∧
      unborrow o' = unborrow o ∧ r'.rest = [] ∧ ReaderOK r' :=
  C01_de_accepts_reader cfg S n v enc [] o cfg.allowedDepth henc hobs hfix hdepth hseq _
    (Nat.le_refl _) _ rfl rfl (Nat.zero_le _) hm (by simp)

/-! ### `ser` then `de` through a streaming reader -/

/-- **C01, end to end, streaming reader.**  Serializing a presentation and deserializing the bytes
    written (followed by anything) through a streaming reader — every reader state `r` over
    `bytes ++ rest`: any refill schedule `r.sched` / `r.lastChunk`, any buffer position, any
    scratch size — with the untyped target yields `Spec.observe` of a value `v` the presentation
    denotes, up to the `borrowed` flags, and leaves exactly what followed. -/
theorem C01_roundtrip_impl_reader (f : Canon.Allow) (ext : Ext) (allowSlow : Bool)
    (S : Schema) (node : Node) (sv : SV) (s₀ : SerState)
    (hok : (ser ext allowSlow S node sv s₀).1 = .ok ())
    (hs : Good s₀) (hS : SchemaOK S) (hnode : NodeOK S node) (hsv : svOK sv = true)
    (hext : ExtOK ext)
    (hcanon : Canon.svCanon f sv = true)
    (hallowS : ∀ (k : Nat) (n : Node), S[k]? = some n → Canon.nodeAllows f n = true)
    (hallowN : Canon.nodeAllows f node = true)
    (hfixS : Schema.fixedDecFits S) (hfixN : node.fixedDecFits = true) :
    ∃ s' bytes v, ser ext allowSlow S node sv s₀ = (.ok (), s') ∧ s'.out = s₀.out ++ bytes ∧
      Spec.encode S node v = some bytes ∧
      Spec.denotes (denExtOf ext) S node sv v = true ∧
      ∀ (cfg : DeConfig) (depth : Nat) (o : Out), Spec.observe S node v = some o →
        Spec.depthOf v ≤ depth → Spec.maxLen v ≤ cfg.maxSeqSize →
        ∀ fuel, Spec.size v * 4 + 8 ≤ fuel → ∀ (rest : Bytes) (r : RState),
          r.isSlice = false → r.limit = none → r.avail ≤ r.rest.length →
          r.rest.length ≤ r.maxAlloc → r.rest = bytes ++ rest →
          ∃ o' r', de deExtModel cfg S fuel node depth false .any r = (.ok o', r') ∧
            unborrow o' = unborrow o ∧ r'.rest = rest ∧ ReaderOK r' := by
  obtain ⟨s', bytes, v, hrun, hout, henc, hden, hde⟩ :=
    C01_roundtrip_impl f ext allowSlow S node sv s₀ hok hs hS hnode hsv hext hcanon hallowS hallowN
      hfixS hfixN
  refine ⟨s', bytes, v, hrun, hout, henc, hden, ?_⟩
  intro cfg depth o hobs hdepth hseq fuel hfuel rest r hsl hl ha hm hr
  exact de_reader_of_slice deExtModel cfg S fuel node depth false .any ⟨hsl, hl, ha, hm⟩
    (hde cfg depth o hobs hdepth hseq fuel hfuel rest (sliceOf r) rfl hl rfl hr)

/-- The round trip with the limits stated on the presentation, on a FRESH reader over
    `bytes ++ rest` with an arbitrary chunk schedule (`sched`, then `lastChunk` forever), scratch
    size and allocation cap (covering the input). -/
theorem C01_roundtrip_impl_bounded_reader (f : Canon.Allow) (ext : Ext) (allowSlow : Bool)
    (cfg : DeConfig) (S : Schema) (node : Node) (sv : SV) (s₀ : SerState) (depth : Nat)
    (hok : (ser ext allowSlow S node sv s₀).1 = .ok ())
    (hs : Good s₀) (hS : SchemaOK S) (hnode : NodeOK S node) (hsv : svOK sv = true)
    (hext : ExtOK ext)
    (hcanon : Canon.svCanon f sv = true)
    (hallowS : ∀ (k : Nat) (n : Node), S[k]? = some n → Canon.nodeAllows f n = true)
    (hallowN : Canon.nodeAllows f node = true)
    (hfixS : Schema.fixedDecFits S) (hfixN : node.fixedDecFits = true)
    (hlim : ∀ v, Spec.denotes (denExtOf ext) S node sv v = true →
      (Spec.observe S node v).isSome = true ∧ Spec.depthOf v ≤ depth ∧
        Spec.maxLen v ≤ cfg.maxSeqSize) :
    ∃ s' bytes v o, ser ext allowSlow S node sv s₀ = (.ok (), s') ∧ s'.out = s₀.out ++ bytes ∧
      Spec.denotes (denExtOf ext) S node sv v = true ∧ Spec.observe S node v = some o ∧
      ∀ fuel, Spec.size v * 4 + 8 ≤ fuel → ∀ (rest : Bytes) (sched : List Nat)
        (lastChunk maxAlloc scratch : Nat), (bytes ++ rest).length ≤ maxAlloc →
        ∃ o' r', de deExtModel cfg S fuel node depth false .any
            { isSlice := false, rest := bytes ++ rest, avail := 0, sched := sched,
              lastChunk := lastChunk, maxAlloc := maxAlloc, scratch := scratch, limit := none } =
            (.ok o', r') ∧
          unborrow o' = unborrow o ∧ r'.rest = rest ∧ ReaderOK r' := by
  obtain ⟨s', bytes, v, hrun, hout, _, hden, hde⟩ :=
    C01_roundtrip_impl_reader f ext allowSlow S node sv s₀ hok hs hS hnode hsv hext hcanon hallowS
      hallowN hfixS hfixN
  obtain ⟨hobs, hdepth, hseq⟩ := hlim v hden
  obtain ⟨o, ho⟩ := Option.isSome_iff_exists.1 hobs
  refine ⟨s', bytes, v, o, hrun, hout, hden, ho, ?_⟩
  intro fuel hfuel rest sched lastChunk maxAlloc scratch hm
  exact hde cfg depth o ho hdepth hseq fuel hfuel rest _ rfl rfl (Nat.zero_le _) hm rfl

/-! ### Non-vacuity: the frozen schema and presentation of `NonVacuityA` §3, read back through a
reader whose refills deliver 1, 2, 3 bytes and then one byte at a time -/

namespace ReaderNV
open Avro.Theorems.NVB Avro.NonVacuityA Driver

/-- a fresh reader over `bs` with the chunk schedule 1, 2, 3, 1, 1, … and a cap of `M` bytes -/
def rd123 (bs : Bytes) (M : Nat) : RState :=
  { isSlice := false, rest := bs, avail := 0, sched := [1, 2, 3], lastChunk := 1, maxAlloc := M }

/-- **`C01_de_accepts_schema_reader`** / **`C01_de_accepts_reader`**: the canonical encoding
    `bytesB` of `vB` (record: array, union with a string, decimal on bytes, enum, decimal on
    fixed) followed by ANY `rest`, with any cap that covers the input. -/
theorem rB_accepts (rest : Bytes) (M : Nat) (hM : (bytesB ++ rest).length ≤ M) :
    ∃ o' r', de deExtModel {} SB 100 nodeB 64 false .any (rd123 (bytesB ++ rest) M) = (.ok o', r') ∧
      unborrow o' = unborrow oB ∧ r'.rest = rest ∧ ReaderOK r' :=
  C01_de_accepts_schema_reader {} SB nodeB vB bytesB rest oB 64 vB_encode vB_observe SB_fixedDecFits
    (by decide +kernel) (by decide +kernel) (by decide +kernel) 100 (by decide +kernel)
    (rd123 (bytesB ++ rest) M) rfl rfl (Nat.zero_le _) hM rfl

/-- **`C01_roundtrip_impl_reader`**, fully concrete: `ser` writes `bytesB`; read back through the
    reader with refills 1, 2, 3, 1, 1, …, followed by any `rest`, it gives `observe vB` up to the
    `borrowed` flags and leaves `rest`. -/
theorem rB_roundtrip (rest : Bytes) (M : Nat) (hM : (bytesB ++ rest).length ≤ M) :
    ∃ s', ser tB.toExt false SB nodeB svB {} = (.ok (), s') ∧ s'.out = bytesB ∧
      Spec.denotes (denExtOf tB.toExt) SB nodeB svB vB = true ∧
      ∃ o' r', de deExtModel {} SB 100 nodeB 64 false .any (rd123 (s'.out ++ rest) M) =
          (.ok o', r') ∧
        unborrow o' = unborrow oB ∧ r'.rest = rest ∧ ReaderOK r' := by
  obtain ⟨s', bytes, v, hrun, hout, henc, hden, hde⟩ :=
    C01_roundtrip_impl_reader {} tB.toExt false SB nodeB svB {} svB_ok C01glue.good_empty SB_ok
      nodeB_ok (by decide +kernel) tB_ok (by decide +kernel) SB_allows (by decide +kernel)
      SB_fixedDecFits (by decide +kernel)
  have hb : bytes = bytesB := by
    have := svB_out
    rw [hrun] at this
    simpa [hout, bytesB] using this
  subst hb
  have hv : v = vB := encode_injective henc vB_encode
  subst hv
  have hout' : s'.out = bytesB := by simpa using hout
  refine ⟨s', hrun, hout', hden, ?_⟩
  rw [hout']
  exact hde {} 64 oB vB_observe (by decide +kernel) (by decide +kernel) 100 (by decide +kernel)
    rest (rd123 (bytesB ++ rest) M) rfl rfl (Nat.zero_le _) hM rfl

/-- what the reader delivers: `oB` with the one borrowed string (`"x"`) copied -/
def oBr : Out := .map [(.str "a" false, .seq [.i64 1, .i64 3]), (.str "u" false, .str "x" false),
  (.str "d" false, .str "1.50" false), (.str "e" false, .str "B" false),
  (.str "f" false, .str "7.0" false)]

/-- The run on `bytesB ++ [9, 9]`, by evaluation: value `oBr`, `[9, 9]` left, the schedule used
    up; the 4-byte fixed decimal is read with `read_exact`, nothing needed the scratch buffer. -/
theorem rB_run : de deExtModel {} SB 100 nodeB 64 false .any (rd123 (bytesB ++ [9, 9]) 64) =
    (.ok oBr, { rd123 [9, 9] 64 with avail := 0, sched := [] }) :=
  resEq_of (by decide +kernel)

/-- **The value is `observe v` only up to `unborrow`**: on the slice the deserializer returns `oB`
    (`C01_roundtrip_impl`), on the reader `oBr`. -/
theorem C01reader_value_not_equal :
    (de deExtModel {} SB 100 nodeB 64 false .any (sliceOf (rd123 (bytesB ++ [9, 9]) 64))).1 = .ok oB ∧
    (de deExtModel {} SB 100 nodeB 64 false .any (rd123 (bytesB ++ [9, 9]) 64)).1 = .ok oBr ∧
    oBr ≠ oB ∧ unborrow oBr = unborrow oB := by
  refine ⟨fstEq_of (by decide +kernel), by rw [rB_run], ?_, ?_⟩
  · simp [oBr, oB]
  · simp [oBr, oB, unborrow, unborrowP, unborrowL]

/-- **`C01_roundtrip_impl_bounded_reader`** on `Some(vec![1i64, -3])` for
    `union [null, array<long>]` (`NonVacuityA`, where its `hlim` — over EVERY value the
    presentation denotes — is proved): every schedule, scratch size and cap are universally
    quantified in the conclusion. -/
example : ∃ s' bytes v o, ser ({} : ExtTable).toExt false SU nodeU svU {} = (.ok (), s') ∧
    s'.out = ({} : SerState).out ++ bytes ∧
    Spec.denotes (denExtOf ({} : ExtTable).toExt) SU nodeU svU v = true ∧
    Spec.observe SU nodeU v = some o ∧
    ∀ fuel, Spec.size v * 4 + 8 ≤ fuel → ∀ (rest : Bytes) (sched : List Nat)
      (lastChunk maxAlloc scratch : Nat), (bytes ++ rest).length ≤ maxAlloc →
      ∃ o' r', de deExtModel { maxSeqSize := 2, allowedDepth := 2 } SU fuel nodeU 2 false .any
          { isSlice := false, rest := bytes ++ rest, avail := 0, sched := sched,
            lastChunk := lastChunk, maxAlloc := maxAlloc, scratch := scratch, limit := none } =
          (.ok o', r') ∧
        unborrow o' = unborrow o ∧ r'.rest = rest ∧ ReaderOK r' :=
  C01_roundtrip_impl_bounded_reader { negInt := true } ({} : ExtTable).toExt false
    { maxSeqSize := 2, allowedDepth := 2 } SU nodeU svU {} 2
    (ok_of_toBool (by decide +kernel)) C01glue.good_empty SU_ok (NodeOK.of_check (by decide +kernel))
    (by decide +kernel) empty_ok (by decide +kernel)
    (fun k n hk => Array.all_getElem? (p := Canon.nodeAllows { negInt := true })
      (by decide +kernel : SU.all (Canon.nodeAllows { negInt := true }) = true) hk)
    (by decide +kernel) SU_fixedDecFits (by decide +kernel)
    (fun v hv => by
      rw [svU_denotes_only _ v hv]
      exact ⟨by rfl, by decide +kernel, by decide +kernel⟩)

/-- **`C01_de_accepts_nil_reader`**: the whole-input form, the schedule given as parameters, the
    tightest depth, sequence and allocation limits. -/
example (sched : List Nat) (lastChunk scratch : Nat) :
    ∃ o' r', de deExtModel { maxSeqSize := 2, allowedDepth := 2 } SB (Spec.size vB * 4 + 8) nodeB 2
        false .any
        { isSlice := false, rest := bytesB, avail := 0, sched := sched, lastChunk := lastChunk,
          maxAlloc := 15, scratch := scratch, limit := none } = (.ok o', r') ∧
      unborrow o' = unborrow oB ∧ r'.rest = [] ∧ ReaderOK r' :=
  C01_de_accepts_nil_reader { maxSeqSize := 2, allowedDepth := 2 } SB nodeB vB bytesB oB vB_encode
    vB_observe (by decide +kernel) (by decide +kernel) (by decide +kernel) sched lastChunk 15
    scratch (by decide)

end ReaderNV

end Avro.Theorems
