import AvroModel.Lemmas.DeLayouts
import AvroModel.Theorems.C04
import AvroModel.Theorems.C01de
/-
C03 — decoder conformance on *every* layout, and soundness ("never a fabricated value").

The specification decoder `Spec.decode` accepts every legal layout of a value: arrays and maps
split into any number of blocks, any block written with a negative count followed by its byte
size, and also varints of any length (`Spec.decodeNat` has no length bound) and decimals of any
byte length.  The model of the deserializer (`Impl.de`, slice back-end, dynamically typed target)
is compared with it through `Spec.decodeL L`, which is `Spec.decode` with three explicit knobs
(`Spec.Limits`, `AvroModel/Lemmas/DeLayouts.lean`):

  * `maxVarint`       longest varint accepted (bytes)               spec: unbounded   impl: 10
  * `maxDecimal`      longest two's-complement decimal (bytes)      spec: unbounded   impl: 16
  * `checkBlockSize`  the byte size after a negative count is ≥ 0   spec: yes         impl: yes
                      (since the repair of `read_block_len`; before, the byte size was read and
                      dropped, and `Limits.impl` had `checkBlockSize := false`)

`C03_decodeL_spec`: with the specification's knobs `decodeL` *is* `Spec.decode`.
`C03_decodeL_mono`: loosening a knob or adding fuel never changes an answer.

Results (all for every schema, node, input, configuration):
  * `C03_de_refines_spec`     acceptance on all layouts: whatever `Spec.decode` accepts, within the
                              implementation's two numeric limits, `de` returns (`observe` of) the
                              same value and consumes exactly the same bytes;
  * `C03_de_sound`            soundness: whatever `de` accepts, `decodeL Limits.impl` accepts with
                              the same value and remainder — the implementation accepts *exactly*
                              the runs of `decodeL Limits.impl` (up to `rust_decimal`'s range, the
                              depth budget and `max_seq_size`);
  * `C03_de_rejects_invalid`  the same against `Spec.decode` itself, unconditionally: the
                              implementation is nowhere more permissive than the specification
                              (`C03_negative_block_size_rejected` is the input that used to be
                              accepted);
  * `C03_invalid_is_err`, `C03_invalid_is_err_lax`, `C03_invalid_is_err_class`
                              invalid input yields `Err` (custom or I/O class), never a value.

DISCREPANCIES between the two decoders (each with concrete bytes below):
  D-a `C03_overlong_varint_rejected`      an 11-byte varint for 0: `Spec.decode` accepts, `de` refuses
                                          (hence the hypothesis `hlim` of `C03_de_refines_spec`);
  D-b `C03_long_decimal_rejected`         a 17-byte `bytes` decimal 0: `Spec.decode` accepts, `de`
                                          refuses (the documented numeric limit, also in `hlim`);
FORMER DISCREPANCY, repaired:
  D-c `C03_negative_block_size_rejected`  block count -1 followed by byte size -1: `Spec.decode`
                                          refuses, and so does `de` now (it used to read the byte
                                          size as a `u64` varint and drop it).
-/
namespace Avro.Theorems
open Avro Avro.Spec Avro.Impl

/-! ### The limited decoder is a faithful mirror of the specification decoder -/

theorem C03_decodeL_spec (S : Schema) (fuel : Nat) (n : Node) (bs : Bytes) :
    Spec.decodeL Limits.spec S fuel n bs = Spec.decode S fuel n bs := Spec.decodeL_spec S fuel n bs

theorem C03_decodeL_mono {L L' : Limits} (hle : L.le L') (S : Schema) {fuel fuel' : Nat}
    (hf : fuel ≤ fuel') {n : Node} {bs : Bytes} {r : Value × Bytes}
    (h : Spec.decodeL L S fuel n bs = some r) : Spec.decodeL L' S fuel' n bs = some r :=
  Spec.decodeL_mono hle S hf h

/-- Within the implementation's limits (and with the specification's check of block byte sizes)
    the limited decoder agrees with the specification decoder. -/
theorem C03_decodeL_implStrict_sub_spec (S : Schema) (fuel : Nat) (n : Node) (bs : Bytes)
    (r : Value × Bytes) (h : Spec.decodeL Limits.implStrict S fuel n bs = some r) :
    Spec.decode S fuel n bs = some r := by
  rw [← Spec.decodeL_spec]
  exact Spec.decodeL_mono Limits.implStrict_le_spec S (Nat.le_refl _) h

/-- The implementation's limits are the strict ones: what `decodeL Limits.impl` accepts, the
    specification decoder accepts with the same result. -/
theorem C03_decodeL_impl_sub_spec (S : Schema) (fuel : Nat) (n : Node) (bs : Bytes)
    (r : Value × Bytes) (h : Spec.decodeL Limits.impl S fuel n bs = some r) :
    Spec.decode S fuel n bs = some r := by
  rw [← Spec.decodeL_spec]
  exact Spec.decodeL_mono Limits.impl_le_spec S (Nat.le_refl _) h

/-- When both accept, `decodeL Limits.impl` and `Spec.decode` return the same thing. -/
theorem C03_decodeL_impl_agrees (S : Schema) (fuel fuel' : Nat) (n : Node) (bs : Bytes)
    (r r' : Value × Bytes) (h : Spec.decodeL Limits.impl S fuel n bs = some r)
    (h' : Spec.decode S fuel' n bs = some r') : r = r' := by
  rw [← Spec.decodeL_spec] at h'
  have e1 := Spec.decodeL_mono Limits.impl_le_specLax S (Nat.le_max_left fuel fuel') h
  have e2 := Spec.decodeL_mono Limits.spec_le_specLax S (Nat.le_max_right fuel fuel') h'
  rw [e1] at e2
  exact Option.some.inj e2

/-! ### 1. Acceptance on every layout -/

/-- **C03, acceptance (all layouts), sharp fuel bound.**  `hlim` says that the input stays within
    the implementation's two numeric limits — no varint longer than 10 bytes, no decimal longer
    than 16 bytes — and nothing else: `decodeL Limits.impl` differs from `Spec.decode` only by
    these two bounds.  Both bounds are necessary
    (`C03_overlong_varint_rejected`, `C03_long_decimal_rejected`). -/
theorem C03_de_refines_spec_fuel3 (cfg : DeConfig) (S : Schema) (node : Node) (v : Spec.Value)
    (bytes rest : Bytes) (o : Out) (depth fuelS fuelL : Nat)
    (hdec : Spec.decode S fuelS node bytes = some (v, rest))
    (hobs : Spec.observe S node v = some o)
    (hlim : (Spec.decodeL Limits.impl S fuelL node bytes).isSome = true)
    (hdepth : Spec.depthOf v ≤ depth) (hseq : Spec.maxLen v ≤ cfg.maxSeqSize)
    (fuel : Nat) (hfuel : 3 * Spec.size v ≤ fuel)
    (s : RState) (hs : s.isSlice = true) (hl : s.limit = none) (ha : s.avail = 0)
    (hr : s.rest = bytes) :
    de deExtModel cfg S fuel node depth false .any s = (.ok o, { s with rest := rest }) := by
  obtain ⟨x, hx⟩ := Option.isSome_iff_exists.1 hlim
  have := C03_decodeL_impl_agrees S fuelL fuelS node bytes x (v, rest) hx hdec
  subst this
  exact (de_accepts_layouts cfg S v node bytes rest o depth fuelL fuel hx hobs hdepth hseq hfuel).run
    s hs hl ha hr

/-- **C03, acceptance (all layouts).**  Every input the specification decoder accepts — arrays and
    maps split into any number of blocks, blocks with a negative count and a byte size, non-minimal
    varints of at most 10 bytes — is read by the deserializer, which hands the target exactly
    `observe v` and consumes exactly what the specification decoder consumed.  Generalises
    `C01_de_accepts` from canonical encodings to all layouts. -/
theorem C03_de_refines_spec (cfg : DeConfig) (S : Schema) (node : Node) (v : Spec.Value)
    (bytes rest : Bytes) (o : Out) (depth fuelS fuelL : Nat)
    (hdec : Spec.decode S fuelS node bytes = some (v, rest))
    (hobs : Spec.observe S node v = some o)
    (hlim : (Spec.decodeL Limits.impl S fuelL node bytes).isSome = true)
    (hdepth : Spec.depthOf v ≤ depth) (hseq : Spec.maxLen v ≤ cfg.maxSeqSize)
    (fuel : Nat) (hfuel : Spec.size v * 4 + 8 ≤ fuel)
    (s : RState) (hs : s.isSlice = true) (hl : s.limit = none) (ha : s.avail = 0)
    (hr : s.rest = bytes) :
    de deExtModel cfg S fuel node depth false .any s = (.ok o, { s with rest := rest }) :=
  C03_de_refines_spec_fuel3 cfg S node v bytes rest o depth fuelS fuelL hdec hobs hlim hdepth hseq fuel
    (by omega) s hs hl ha hr

/-- The same stated on the limited decoder alone (no reference to `Spec.decode` needed): the
    deserializer accepts every run of `decodeL Limits.impl`. -/
theorem C03_de_accepts_impl_layouts (cfg : DeConfig) (S : Schema) (node : Node) (v : Spec.Value)
    (bytes rest : Bytes) (o : Out) (depth fuelS : Nat)
    (hdec : Spec.decodeL Limits.impl S fuelS node bytes = some (v, rest))
    (hobs : Spec.observe S node v = some o)
    (hdepth : Spec.depthOf v ≤ depth) (hseq : Spec.maxLen v ≤ cfg.maxSeqSize)
    (fuel : Nat) (hfuel : 3 * Spec.size v ≤ fuel)
    (s : RState) (hs : s.isSlice = true) (hl : s.limit = none) (ha : s.avail = 0)
    (hr : s.rest = bytes) :
    de deExtModel cfg S fuel node depth false .any s = (.ok o, { s with rest := rest }) :=
  (de_accepts_layouts cfg S v node bytes rest o depth fuelS fuel hdec hobs hdepth hseq hfuel).run
    s hs hl ha hr

/-! ### 2. Soundness: never a fabricated value -/

/-- **C03, soundness.**  Whatever the deserializer accepts, `decodeL Limits.impl` — the
    specification decoder with 10-byte varints and 16-byte decimals — accepts, with a value whose observation is what the target received and with exactly
    the same remainder; nothing else of the state changed.  No hypothesis on the schema, the
    configuration, the fuel or the input. -/
theorem C03_de_sound (cfg : DeConfig) (S : Schema) (node : Node) (depth fuel : Nat)
    (s s' : RState) (o : Out)
    (hs : s.isSlice = true) (hl : s.limit = none) (ha : s.avail = 0)
    (h : de deExtModel cfg S fuel node depth false .any s = (.ok o, s')) :
    ∃ v fuelS, Spec.decodeL Limits.impl S fuelS node s.rest = some (v, s'.rest) ∧
      Spec.observe S node v = some o ∧ s' = { s with rest := s'.rest } :=
  de_sound_layouts cfg S node depth fuel s s' o hs hl ha h

/-- `hlim` is not vacuous: every canonical encoding (`Spec.encode`) of a value the deserializer can
    represent is within the implementation's limits, so `C03_de_refines_spec` subsumes
    `C01_de_accepts`.  (From C01 and soundness.) -/
theorem C03_canonical_within_limits (S : Schema) (n : Node) (v : Spec.Value) (enc rest : Bytes)
    (o : Out) (henc : Spec.encode S n v = some enc) (hobs : Spec.observe S n v = some o)
    (hfix : Spec.fixedDecOk S n v = true) :
    ∃ fuelL, Spec.decodeL Limits.impl S fuelL n (enc ++ rest) = some (v, rest) := by
  let cfg : DeConfig := { maxSeqSize := Spec.maxLen v, allowedDepth := Spec.depthOf v }
  have hrun := C01_de_accepts cfg S n v enc rest o (Spec.depthOf v) henc hobs hfix (Nat.le_refl _)
    (Nat.le_refl _) _ (Nat.le_refl _) { rest := enc ++ rest } rfl rfl rfl rfl
  obtain ⟨v', fL, hv', _, _⟩ := C03_de_sound cfg S n _ _ _ _ o rfl rfl rfl hrun
  have hspec := Spec.decode_encode S n v enc rest henc (Spec.size v) (Nat.le_refl _)
  have := C03_decodeL_impl_agrees S fL _ n _ _ _ hv' hspec
  simp only [Prod.mk.injEq] at this
  obtain ⟨rfl, _⟩ := this
  exact ⟨fL, hv'⟩

/-- **C03, soundness against the specification decoder.**  Whatever the implementation accepts,
    `Spec.decode` accepts with the same value and the same consumed length.  No hypothesis on the
    schema, the configuration, the fuel or the input. -/
theorem C03_de_rejects_invalid (cfg : DeConfig) (S : Schema) (node : Node) (depth fuel : Nat)
    (s s' : RState) (o : Out)
    (hs : s.isSlice = true) (hl : s.limit = none) (ha : s.avail = 0)
    (h : de deExtModel cfg S fuel node depth false .any s = (.ok o, s')) :
    ∃ v fuelS, Spec.decode S fuelS node s.rest = some (v, s'.rest) ∧
      Spec.observe S node v = some o := by
  obtain ⟨v, fS, hv, ho, _⟩ := C03_de_sound cfg S node depth fuel s s' o hs hl ha h
  exact ⟨v, fS, C03_decodeL_impl_sub_spec S fS node s.rest _ hv, ho⟩

/-- **C03, invalid input is an error** (lax form, implied by `C03_invalid_is_err`): an input that
    even the specification decoder *without* the sign check on block byte sizes rejects with every
    amount of fuel is never deserialized into a value. -/
theorem C03_invalid_is_err_lax (cfg : DeConfig) (S : Schema) (node : Node) (depth fuel : Nat)
    (s : RState) (hs : s.isSlice = true) (hl : s.limit = none) (ha : s.avail = 0)
    (hinv : ∀ fuelS, Spec.decodeL Limits.specLax S fuelS node s.rest = none) (o : Out) :
    (de deExtModel cfg S fuel node depth false .any s).1 ≠ .ok o := by
  intro hok
  obtain ⟨v, fS, hv, _, _⟩ := C03_de_sound cfg S node depth fuel s
    (de deExtModel cfg S fuel node depth false .any s).2 o hs hl ha (Prod.ext hok rfl)
  have := Spec.decodeL_mono Limits.impl_le_specLax S (Nat.le_refl fS) hv
  rw [hinv fS] at this
  cases this

/-- **C03, invalid input is an error**: an input the specification decoder rejects with every
    amount of fuel (boolean byte other than 0/1, invalid UTF-8, union or enum index outside the
    schema, negative length, negative block byte size, premature end of input, …) is never
    deserialized into a value. -/
theorem C03_invalid_is_err (cfg : DeConfig) (S : Schema) (node : Node) (depth fuel : Nat)
    (s : RState) (hs : s.isSlice = true) (hl : s.limit = none) (ha : s.avail = 0)
    (hinv : ∀ fuelS, Spec.decode S fuelS node s.rest = none) (o : Out) :
    (de deExtModel cfg S fuel node depth false .any s).1 ≠ .ok o := by
  intro hok
  obtain ⟨v, fS, hv, _⟩ := C03_de_rejects_invalid cfg S node depth fuel s
    (de deExtModel cfg S fuel node depth false .any s).2 o hs hl ha (Prod.ext hok rfl)
  rw [hinv fS] at hv
  cases hv

/-- A block header with a negative count whose byte size is negative too: the specification's
    decoder rejects it … -/
theorem decodeBlockHeader_negative_size {bs rest1 rest2 : Bytes} {c size : Int}
    (h1 : Spec.decodeLong bs = some (c, rest1)) (hc : c < 0)
    (h2 : Spec.decodeLong rest1 = some (size, rest2)) (hsz : size < 0) :
    Spec.decodeBlockHeader bs = none := by
  unfold Spec.decodeBlockHeader
  rw [h1]
  simp only [ge_iff_le, show ¬ (0 ≤ c) by omega, if_false, h2, show ¬ (0 ≤ size) by omega]

/-- **C03, the byte size of a block is checked.**  An array or map whose FIRST block header has a
    negative item count followed by a NEGATIVE byte size (any two varints: canonical or padded)
    is never deserialized into a value — whatever follows, whatever the schema, the configuration
    and the fuel.  (Before the repair of `read_block_len` the implementation ignored the byte
    size of a block it did not skip, and accepted such input.  This replaces a former statement
    of the same name that compared `decodeL Limits.impl` with `decodeL Limits.implStrict`: since
    the repair the two limits are the same term and that statement was `P → P`.) -/
theorem C03_block_sizes_checked (cfg : DeConfig) (S : Schema) (node : Node) (k : Nat)
    (hnode : node = .array k ∨ node = .map k) (depth fuel : Nat)
    (s : RState) (hs : s.isSlice = true) (hl : s.limit = none) (ha : s.avail = 0)
    (c size : Int) (rest1 rest2 : Bytes)
    (h1 : Spec.decodeLong s.rest = some (c, rest1)) (hc : c < 0)
    (h2 : Spec.decodeLong rest1 = some (size, rest2)) (hsz : size < 0) (o : Out) :
    (de deExtModel cfg S fuel node depth false .any s).1 ≠ .ok o := by
  apply C03_invalid_is_err cfg S node depth fuel s hs hl ha
  have hh := decodeBlockHeader_negative_size h1 hc h2 hsz
  intro fuelS
  rcases hnode with rfl | rfl
  · cases fuelS with
    | zero => simp [Spec.decode]
    | succ f =>
      simp only [Spec.decode]
      cases Spec.nodeOf S k with
      | none => rfl
      | some item =>
        cases f with
        | zero => simp [Spec.decodeBlocks]
        | succ f => simp [Spec.decodeBlocks, hh]
  · cases fuelS with
    | zero => simp [Spec.decode]
    | succ f =>
      simp only [Spec.decode]
      cases Spec.nodeOf S k with
      | none => rfl
      | some item =>
        cases f with
        | zero => simp [Spec.decodeMapBlocks]
        | succ f => simp [Spec.decodeMapBlocks, hh]

/-- With C04's totality: for a well-formed schema and at least `fuelBound` units of fuel (so that
    the model's own out-of-fuel `panic` is excluded) the outcome on invalid input is an `Err` of
    the crate's custom class or of the I/O class. -/
theorem C03_invalid_is_err_class (cfg : DeConfig) (S : Schema) (hS : S.keysInBounds = true)
    (k : Nat) (node : Node) (hk : S[k]? = some node) (depth fuel : Nat)
    (hf : fuelBound cfg S .any depth ≤ fuel)
    (s : RState) (hs : s.isSlice = true) (hl : s.limit = none) (ha : s.avail = 0)
    (hinv : ∀ fuelS, Spec.decode S fuelS node s.rest = none) :
    (de deExtModel cfg S fuel node depth false .any s).1 = .error .custom ∨
    (de deExtModel cfg S fuel node depth false .any s).1 = .error .io := by
  rcases C04_ok_or_err deExtModel cfg S hS fuel k node hk depth false .any hf s with ⟨o, ho⟩ | h
  · exact absurd ho (C03_invalid_is_err cfg S node depth fuel s hs hl ha hinv o)
  · exact h

/-! ### 3. Non-vacuity and the discrepancies, on concrete bytes -/

/-- `[1, 2, 3] : array<int>` in two blocks: `count 1`, item; `count -2`, `byte size 2`, two items;
    end marker. -/
def twoBlocks : Bytes := [0x02, 0x02, 0x03, 0x04, 0x04, 0x06, 0x00]

example : Spec.decode #[.int] 6 (.array 0) twoBlocks =
    some (.array [.int 1, .int 2, .int 3], []) := by rfl

example : Spec.decodeL Limits.impl #[.int] 6 (.array 0) twoBlocks =
    some (.array [.int 1, .int 2, .int 3], []) := by rfl

/-- the general theorem applies to it -/
example : de deExtModel {} #[.int] 44 (.array 0) 64 false .any { rest := twoBlocks } =
    (.ok (.seq [.i32 1, .i32 2, .i32 3]), { rest := [] }) :=
  C03_de_refines_spec {} #[.int] (.array 0) (.array [.int 1, .int 2, .int 3]) twoBlocks []
    (.seq [.i32 1, .i32 2, .i32 3]) 64 6 6 (by rfl) (by rfl) (by rfl) (by decide) (by decide)
    44 (by decide) { rest := twoBlocks } rfl rfl rfl rfl

/-- an invalid boolean byte is rejected by both -/
example : Spec.decode #[] 5 .boolean [2] = none := by rfl
example : ∀ fuelS, Spec.decode #[] fuelS .boolean [2] = none := by
  intro f; cases f <;> simp [Spec.decode]
example : (de deExtModel {} #[] 5 .boolean 64 false .any { rest := [2] }).1 = .error .custom := by
  simp [de, deAny, readBool, readSlice, DeM.fail, bind]

/-- the corollary applies to it -/
example (o : Out) : (de deExtModel {} #[] 5 .boolean 64 false .any { rest := [2] }).1 ≠ .ok o :=
  C03_invalid_is_err {} #[] .boolean 64 5 { rest := [2] } rfl rfl rfl
    (by intro f; cases f <;> simp [Spec.decode]) o

/-- D-a: an 11-byte varint (value 0): accepted by the specification decoder, refused by the
    implementation (`integer-encoding` stops at 10 bytes). -/
def overlong : Bytes := [0x80, 0x80, 0x80, 0x80, 0x80, 0x80, 0x80, 0x80, 0x80, 0x80, 0x00]

theorem C03_overlong_varint_rejected :
    Spec.decode #[] 2 .long overlong = some (.long 0, []) ∧
    Spec.decodeL Limits.impl #[] 2 .long overlong = none ∧
    (de deExtModel {} #[] 5 .long 64 false .any { rest := overlong }).1 = .error .custom := by
  have h : Spec.decodeLong overlong = some (0, []) := by decide
  refine ⟨by simp [Spec.decode, h], ?_, ?_⟩
  · have : Spec.decodeLongL Limits.impl overlong = none := by
      unfold Spec.decodeLongL; rw [h]; rfl
    simp [Spec.decodeL, this]
  simp [de, deAny, readVarint, decodeVar, decodeVarI64, decodeVarU64, decodeVarU64Aux, overlong, bind]

/-- D-b: decimal 0 written on 17 bytes (`bytes` representation): accepted by the specification
    decoder, refused by the implementation (`size > 16`). -/
theorem C03_long_decimal_rejected :
    Spec.decode #[] 2 (.decimal 0 5 .bytes) (34 :: List.replicate 17 0) = some (.decimal 0, []) ∧
    Spec.decodeL Limits.impl #[] 2 (.decimal 0 5 .bytes) (34 :: List.replicate 17 0) = none ∧
    (de deExtModel {} #[] 5 (.decimal 0 5 .bytes) 64 false .any
      { rest := 34 :: List.replicate 17 0 }).1 = .error .custom := by
  refine ⟨by rfl, by rfl, ?_⟩
  simp [de, deAny, readDecimal, readLen, readVarint, decodeVar, decodeVarI64, decodeVarU64,
    decodeVarU64Aux, unzigzagBV, DeM.fail, bind, pure]

/-- D-c (repaired): `array<null>`, block count -1 followed by the byte size -1, end marker: refused
    by the specification decoder (a size is not negative) and, since the repair of
    `read_block_len`, by the implementation as well — it used to read the byte size as a `u64`
    varint and drop it, and returned `[null]`. -/
theorem C03_negative_block_size_rejected :
    (∀ fuelS, Spec.decode #[.null] fuelS (.array 0) [0x01, 0x01, 0x00] = none) ∧
    (∀ fuelS, Spec.decodeL Limits.impl #[.null] fuelS (.array 0) [0x01, 0x01, 0x00] = none) ∧
    (∀ o, (de deExtModel {} #[.null] 20 (.array 0) 64 false .any
      { rest := [0x01, 0x01, 0x00] }).1 ≠ .ok o) ∧
    (de deExtModel {} #[.null] 20 (.array 0) 64 false .any { rest := [0x01, 0x01, 0x00] }).1 =
      .error .custom := by
  have hnone : ∀ fuelS, Spec.decode #[.null] fuelS (.array 0) [0x01, 0x01, 0x00] = none := by
    intro f
    cases f with
    | zero => rfl
    | succ f =>
      cases f with
      | zero => rfl
      | succ f =>
        have : Spec.decodeBlockHeader [0x01, 0x01, 0x00] = none := by decide
        simp [Spec.decode, Spec.nodeOf, Spec.decodeBlocks, this]
  have hnoneL : ∀ fuelS,
      Spec.decodeL Limits.impl #[.null] fuelS (.array 0) [0x01, 0x01, 0x00] = none := by
    intro f
    cases h : Spec.decodeL Limits.impl #[.null] f (.array 0) [0x01, 0x01, 0x00] with
    | none => rfl
    | some r =>
      have := C03_decodeL_impl_sub_spec _ _ _ _ _ h
      rw [hnone f] at this
      cases this
  have hne : ∀ o, (de deExtModel {} #[.null] 20 (.array 0) 64 false .any
      { rest := [0x01, 0x01, 0x00] }).1 ≠ .ok o :=
    fun o => C03_invalid_is_err {} #[.null] (.array 0) 64 20 { rest := [0x01, 0x01, 0x00] }
      rfl rfl rfl hnone o
  refine ⟨hnone, hnoneL, hne, ?_⟩
  rw [de, deAny]
  have e : (#[Node.null] : Schema)[0]? = some .null := rfl
  simp only [e, DeM.bind_apply]
  have d : decDepth 64 { rest := [0x01, 0x01, 0x00] } =
      (.ok 63, { rest := [0x01, 0x01, 0x00] }) := rfl
  simp only [d]
  rw [deSeqLoop]
  rfl

end Avro.Theorems
