import AvroModel.Lemmas.GrowLoop
import AvroModel.Theorems.C15
import AvroModel.Theorems.C17
/-
C05: what the writer produces, the reader reads back.

Part 1 — the grow loops of `writer/compression.rs` (deflate, bzip2, xz) deliver the complete
compressed stream whatever its length relative to the output buffer and however the compressor
spreads its output over the calls ("block sizes that place compressed lengths on internal buffer
boundaries"); the loop of bzip2 before the repair of D13 did not (`C05_growloop_old_bzip2_truncates`).

Part 2 — write then read: the bytes a writer (null codec) leaves in its sink after the header are
read back by the reader (slice back-end) as exactly the values written, in order, then end of
stream (`C05_roundtrip_null_slice`); for an abstract codec satisfying law L1 (a HYPOTHESIS),
one block is opened, read and left correctly (`C05_roundtrip_codec`).
-/
namespace Avro.Theorems
open Avro Avro.Impl Avro.Impl.Ocf Avro.Impl.GrowLoop Avro.C05

/-! ### Part 1. The grow loops -/

/-- With fuel for one call per byte of the stream plus one, each loop ends `Ok` — never
    `noProgress`, never out of fuel — in a state holding the complete stream. -/
theorem C05_growloop_loop_complete (kind : Kind) (c : Comp) (cap0 fuel : Nat) (h0 : c.done = 0)
    (hc : 1 ≤ cap0) (hf : c.total.length + 1 ≤ fuel) :
    ∃ st, encodeLoop kind fuel { cap := cap0, comp := c } = .ok st ∧ st.out = c.total := by
  obtain ⟨st, h1, h2, _⟩ := encodeLoop_complete kind c.total fuel _ (LInv_init c cap0 h0 hc)
    (by simp only [h0]; omega)
  exact ⟨st, h1, h2⟩

/-- **C05 (grow loops).** For every compressed stream `c.total` (of any length relative to the
    starting buffer `cap0`), every emission schedule `c.sched` and each of the three loops:
    `encode` terminates within its fuel, never reports `noProgress`, and returns exactly the
    complete stream. -/
theorem C05_growloop_complete (kind : Kind) (c : Comp) (cap0 : Nat) (h0 : c.done = 0)
    (hc : 1 ≤ cap0) : encode kind cap0 c = .ok c.total := by
  obtain ⟨st, h1, h2⟩ := C05_growloop_loop_complete kind c cap0
    (2 * c.total.length + c.sched.length + 64) h0 hc (by omega)
  simp only [encode, h1, h2]

/-- The buffer of bzip2 and xz is doubled only when it is full: the capacity the loop ends with
    is less than twice the larger of the starting capacity and the stream length plus one. -/
theorem C05_growloop_cap_bounded (kind : Kind) (hk : kind ≠ .deflate) (c : Comp) (cap0 fuel : Nat)
    (h0 : c.done = 0) (hc : 1 ≤ cap0) (st : LoopState)
    (h : encodeLoop kind fuel { cap := cap0, comp := c } = .ok st)
    (hf : c.total.length + 1 ≤ fuel) :
    cap0 ≤ st.cap ∧ st.cap < 2 * max cap0 (c.total.length + 1) := by
  obtain ⟨st', h1, _, _, h4, h5, _⟩ := encodeLoop_complete kind c.total fuel _
    (LInv_init c cap0 h0 hc) (by simp only [h0]; omega)
  rw [h1] at h
  cases h
  have := h5 hk
  simp only at this h4
  omega

/-- … in particular with the fuel `encode` uses. -/
theorem C05_growloop_cap_bounded_encode (kind : Kind) (hk : kind ≠ .deflate) (c : Comp) (cap0 : Nat)
    (h0 : c.done = 0) (hc : 1 ≤ cap0) :
    ∃ st, encodeLoop kind (2 * c.total.length + c.sched.length + 64) { cap := cap0, comp := c }
        = .ok st ∧ st.out = c.total ∧ cap0 ≤ st.cap ∧ st.cap < 2 * max cap0 (c.total.length + 1) := by
  obtain ⟨st, h1, h2⟩ := C05_growloop_loop_complete kind c cap0
    (2 * c.total.length + c.sched.length + 64) h0 hc (by omega)
  exact ⟨st, h1, h2, C05_growloop_cap_bounded kind hk c cap0 _ h0 hc st h1 (by omega)⟩

/-- deflate doubles on every call that reports "pending", full or not: the capacity it ends
    with is `cap0 * 2 ^ p`, `p` the number of pending calls — at most one per byte of the stream,
    so `cap0 * 2 ^ total.length` bounds it, and nothing better holds in general
    (`C05_growloop_deflate_cap_exponential`). -/
theorem C05_growloop_cap_deflate (c : Comp) (cap0 fuel : Nat) (h0 : c.done = 0) (hc : 1 ≤ cap0)
    (st : LoopState) (h : encodeLoop .deflate fuel { cap := cap0, comp := c } = .ok st)
    (hf : c.total.length + 1 ≤ fuel) :
    ∃ p, p ≤ c.total.length ∧ st.cap = cap0 * 2 ^ p := by
  obtain ⟨st', h1, _, _, _, _, h6⟩ := encodeLoop_complete .deflate c.total fuel _
    (LInv_init c cap0 h0 hc) (by simp only [h0]; omega)
  rw [h1] at h
  cases h
  obtain ⟨p, hp, hcap⟩ := h6 rfl
  exact ⟨p, by simp only [h0] at hp; omega, hcap⟩

/-- The bound is reached: a compressor that trickles its 6 bytes one per call makes deflate
    double five times (capacity `32 * cap0` for 6 bytes), where bzip2 and xz keep the buffer. -/
theorem C05_growloop_deflate_cap_exponential :
    let c : Comp := { total := [1, 2, 3, 4, 5, 6], sched := [1, 1, 1, 1, 1, 1] }
    (∃ st, encodeLoop .deflate 7 { cap := 8, comp := c } = .ok st ∧ st.cap = 8 * 2 ^ 5) ∧
    (∃ st, encodeLoop .bzip2 7 { cap := 8, comp := c } = .ok st ∧ st.cap = 8) := by
  exact ⟨⟨_, rfl, rfl⟩, ⟨_, rfl, rfl⟩⟩

/-! #### The loop of bzip2 before the repair of D13 -/

/-- The bzip2 loop as it was: `FinishOk` ("pending") was taken for completion. -/
def encodeLoopOldBzip2 : Nat → LoopState → Except LoopErr LoopState
  | 0, _ => .error .fuel
  | fuel + 1, st =>
    let space := st.cap - st.out.length
    let (status, emitted, comp') := st.comp.call space
    let st := { st with out := st.out ++ emitted, comp := comp' }
    match status with
    | .streamEnd => .ok st
    | .pending => .ok st        -- D13: the stream is NOT finished
    | .noProgress => encodeLoopOldBzip2 fuel { st with cap := st.cap * 2 }

def encodeOldBzip2 (cap0 : Nat) (c : Comp) : Except LoopErr Bytes :=
  match encodeLoopOldBzip2 (2 * c.total.length + c.sched.length + 64) { cap := cap0, comp := c } with
  | .ok st => .ok st.out
  | .error e => .error e

/-- **D13, as it was.** A stream of 5 bytes into a buffer of 2: the old loop returned `Ok` with
    the first 2 bytes only — a strict prefix of the stream —, where the repaired loop returns all
    of it. -/
theorem C05_growloop_old_bzip2_truncates :
    ∃ (c : Comp) (cap0 : Nat) (out : Bytes), c.done = 0 ∧ 1 ≤ cap0 ∧ c.total.length = 5 ∧ cap0 = 2 ∧
      encodeOldBzip2 cap0 c = .ok out ∧ out <+: c.total ∧ out.length < c.total.length ∧
      encode .bzip2 cap0 c = .ok c.total :=
  ⟨{ total := [10, 20, 30, 40, 50] }, 2, [10, 20], rfl, by decide, rfl, rfl, rfl,
    ⟨[30, 40, 50], rfl⟩, by decide, C05_growloop_complete _ _ _ rfl (by decide)⟩

/-! ### Part 2. Write, then read -/

section RoundTrip
variable {α : Type} (enc : α → Bytes)

/-- A call on the writer, at the level of values: `write v` serializes successfully to `enc v`,
    `fail` is a value that does not fit the schema. -/
inductive VOp (α : Type)
  | write (v : α)
  | fail
  | finishBlock

/-- the writer call it stands for -/
def VOp.toWOp : VOp α → WOp
  | .write v => .value (some (enc v))
  | .fail => .value none
  | .finishBlock => .finishBlock

/-- the value it adds to the file -/
def VOp.val? : VOp α → Option α
  | .write v => some v
  | _ => none

/-- the values successfully written by a history -/
def valuesOf (ops : List (VOp α)) : List α := ops.filterMap VOp.val?

/-- the log entry of a value -/
def entryOfVal (v : α) : Entry := (enc v, 1)

theorem flatMap_entryOf_toWOp (ops : List (VOp α)) :
    (ops.map (VOp.toWOp enc)).flatMap entryOf = (valuesOf ops).map (entryOfVal enc) := by
  induction ops with
  | nil => rfl
  | cons op ops ih =>
    simp only [List.map_cons, List.flatMap_cons, ih, valuesOf, List.filterMap_cons]
    cases op <;> simp [VOp.toWOp, VOp.val?, entryOf, entryOfVal]

theorem toWOp_ne_intoInner (op : VOp α) : VOp.toWOp enc op ≠ .intoInner := by
  cases op <;> simp [VOp.toWOp]

/-- A list of lists whose concatenation is the image of `xs` is the image of a partition of `xs`. -/
theorem exists_partition_of_flatten_eq_map {β γ : Type} (f : β → γ) :
    ∀ (L : List (List γ)) (xs : List β), L.flatten = xs.map f →
      ∃ B : List (List β), L = B.map (List.map f) ∧ B.flatten = xs := by
  intro L
  induction L with
  | nil =>
    intro xs h
    refine ⟨[], rfl, ?_⟩
    cases xs with
    | nil => rfl
    | cons x xs => simp at h
  | cons l L ih =>
    intro xs h
    rw [List.flatten_cons] at h
    obtain ⟨l₁, l₂, rfl, h1, h2⟩ := List.map_eq_append_iff.1 h.symm
    obtain ⟨B, hB, hB2⟩ := ih l₂ h2.symm
    exact ⟨l₁ :: B, by simp [h1, hB], by simp [hB2]⟩

/-- `blockOf` of the entries of the values `vs`: their number and their concatenated encodings. -/
theorem blockOf_map_entryOfVal (vs : List α) :
    blockOf (vs.map (entryOfVal enc)) = (vs.length, blockData enc vs) := by
  simp only [blockOf, cntOf, bufOf, blockData, List.map_map, Prod.mk.injEq]
  refine ⟨?_, rfl⟩
  induction vs with
  | nil => rfl
  | cons v vs ih => simp only [List.map_cons, List.sum_cons, ih, Function.comp, entryOfVal,
      List.length_cons]; omega

/-- **The bridge between the two developments.** For the null codec, the bytes the writer
    development assigns to the blocks `B` (each a list of values, one log entry `(enc v, 1)` per
    value) are the `fileBody` the reader development reads. -/
theorem blocksBytes_eq_fileBody (c : Codec) (hc : c.isNull = true) (sync : Bytes)
    (B : List (List α)) :
    blocksBytes c sync ((B.map (List.map (entryOfVal enc))).map blockOf) = fileBody enc sync B := by
  simp only [blocksBytes, fileBody, List.map_map]
  congr 1
  apply List.map_congr_left
  intro vs _
  simp only [Function.comp, blockOf_map_entryOfVal, Ocf.blockBytes, Theorems.blockBytes, codecData,
    hc, if_true]

theorem length_le_flatten_of_mem {β : Type} (B : List (List β)) (b : List β) (h : b ∈ B) :
    b.length ≤ B.flatten.length := by
  induction B with
  | nil => cases h
  | cons x B ih =>
    simp only [List.flatten_cons, List.length_append]
    rcases List.mem_cons.1 h with rfl | h
    · omega
    · have := ih h; omega

theorem blockData_length_le_of_mem (B : List (List α)) (b : List α) (h : b ∈ B) :
    (blockData enc b).length ≤ (blockData enc B.flatten).length := by
  induction B with
  | nil => cases h
  | cons x B ih =>
    simp only [blockData, List.flatten_cons, List.map_append, List.flatten_append,
      List.length_append] at ih ⊢
    rcases List.mem_cons.1 h with rfl | h
    · omega
    · have := ih h; omega

/-- every block of a partition of values whose number and total size fit an `i64` is `BlockOk` -/
theorem blockOk_of_total (B : List (List α)) (hn : B.flatten.length < 2 ^ 63)
    (hs : (blockData enc B.flatten).length < 2 ^ 63) : ∀ b ∈ B, BlockOk enc b := by
  intro b hb
  have h1 := length_le_flatten_of_mem B b hb
  have h2 := blockData_length_le_of_mem enc B b hb
  constructor <;> (unfold Spec.InI64; omega)

theorem wrun_snoc (c : Codec) (dbg : Bool) (w : WState) (ops : List WOp) (op : WOp) :
    wrun c dbg w (ops ++ [op]) =
      ((wrun c dbg w ops).1 ++ [(wstep c dbg (wrun c dbg w ops).2 op).1],
        (wstep c dbg (wrun c dbg w ops).2 op).2) := by
  simp only [wrun, List.foldl_append, List.foldl_cons, List.foldl_nil]

/-- The sink after a history closed by `finish_block`, `into_inner` or `Drop` (all-accepting
    sink): every call returned what it should, and the sink holds the header followed by the
    blocks `(arun … (ops ++ [fin])).sealed`. -/
theorem wrun_closed_sink (c : Codec) (dbg : Bool) (hdr sync : Bytes) (approx : Nat)
    (ops : List WOp) (fin : WOp) (hfin : fin = .finishBlock ∨ fin = .intoInner ∨ fin = .drop)
    (hops : ∀ op ∈ ops, op ≠ .intoInner) (w : WState) (h0 : Rep c hdr sync approx {} w) :
    let a := arun approx {} (ops ++ [fin])
    (wrun c dbg w (ops ++ [fin])).1 = (ops ++ [fin]).map expected ∧
      (wrun c dbg w (ops ++ [fin])).2.sink.data = hdr ++ blocksBytes c sync (a.sealed.map blockOf) := by
  intro a
  obtain ⟨h1, h2, _, _⟩ := C15_run c dbg hdr sync approx ops hops w h0
  have ha : a = astep approx (arun approx {} ops) fin := by
    show arun approx {} (ops ++ [fin]) = _
    simp only [arun, List.foldl_append, List.foldl_cons, List.foldl_nil]
  rw [wrun_snoc, ha]
  by_cases hi : fin = .intoInner
  · subst hi
    obtain ⟨w', hw, hrep⟩ := C15_intoInner_step c dbg hdr sync approx _ _ h2
    rw [hw]
    refine ⟨by simp [h1, expected], ?_⟩
    have := hrep.inv.sink_eq
    rw [hrep.sync_eq] at this
    exact this
  · obtain ⟨w', hw, hrep⟩ := C15_rep_step c dbg hdr sync approx _ _ fin hi h2
    rw [hw]
    refine ⟨by simp [h1], ?_⟩
    have := hrep.inv.sink_eq
    rw [hrep.sync_eq] at this
    exact this

/-- The hypothesis `Rep c hdr sync approx {} w` of the round-trip theorems is what a freshly
    built writer satisfies: the header is in the (all-accepting) sink, nothing else happened. -/
theorem rep_fresh (c : Codec) (hdr sync : Bytes) (approx : Nat) :
    Rep c hdr sync approx {} { sync := sync, approx := approx, sink := { data := hdr } } :=
  ⟨⟨rfl, by simp, by simp [blocksBytes]⟩, rfl, rfl, rfl, rfl, rfl⟩

/-- **C05 (write then read, null codec, slice back-end).**
    A freshly built writer `w` (its sink holds the header `hdr`, nothing else happened: `Rep … {} w`;
    the sink accepts everything) is driven through any history `ops` of values that serialize
    (`write v`, to `enc v`), values that fail, and explicit `finish_block`s, closed by
    `finish_block`, `into_inner` or `Drop`. Then:
    * every call returned `Ok`, except the failing values which returned their error;
    * the sink holds `hdr` followed by `fileBody enc sync blocks` for some partition `blocks` of
      the values written successfully, in order (`blocks.flatten = valuesOf ops`);
    * a reader (null codec, slice back-end) opened on the bytes after the header, with any datum
      deserializer that decodes what `enc` wrote, yields exactly those values, in order, then
      end of stream — within `N + 1` calls of `next`, `N` the number of values.
    The number of values and their total size fit an `i64`. -/
theorem C05_roundtrip_null_slice (c : Codec) (hc : c.isNull = true) (d : Decomp)
    (hn : d.isNull = true) (datum : RState → Except DeErr α × RState) (hd : DatumOk enc datum)
    (dbg : Bool) (hdr sync : Bytes) (hsy : sync.length = 16) (approx : Nat)
    (ops : List (VOp α)) (fin : WOp) (hfin : fin = .finishBlock ∨ fin = .intoInner ∨ fin = .drop)
    (w : WState) (h0 : Rep c hdr sync approx {} w)
    (hcount : (valuesOf ops).length < 2 ^ 63)
    (hsize : (blockData enc (valuesOf ops)).length < 2 ^ 63) :
    let run := wrun c dbg w (ops.map (VOp.toWOp enc) ++ [fin])
    run.1 = (ops.map (VOp.toWOp enc) ++ [fin]).map expected ∧
    (∃ blocks : List (List α), blocks.flatten = valuesOf ops ∧ (∀ b ∈ blocks, b ≠ []) ∧
        run.2.sink.data = hdr ++ fileBody enc sync blocks) ∧
    readAll d datum ((valuesOf ops).length + 1) (openSlice sync (run.2.sink.data.drop hdr.length))
      = (valuesOf ops, .eos) := by
  intro run
  have hops : ∀ op ∈ ops.map (VOp.toWOp enc), op ≠ .intoInner := by
    intro op hop
    obtain ⟨o, _, rfl⟩ := List.mem_map.1 hop
    exact toWOp_ne_intoInner enc o
  obtain ⟨hres, hsink⟩ := wrun_closed_sink c dbg hdr sync approx _ fin hfin hops w h0
  obtain ⟨_, hflat⟩ := C15_run_finished approx (ops.map (VOp.toWOp enc)) fin hfin
    (by
      intro b k hm
      obtain ⟨o, _, ho⟩ := List.mem_map.1 hm
      cases o <;> simp [VOp.toWOp] at ho)
  have hpos : SealedPos (arun approx {} (ops.map (VOp.toWOp enc) ++ [fin])) :=
    arun_sealedPos approx {} _ (by intro b hb; simp at hb)
  rw [flatMap_entryOf_toWOp] at hflat
  obtain ⟨B, hB, hBflat⟩ := exists_partition_of_flatten_eq_map (entryOfVal enc) _ _ hflat
  rw [hB, blocksBytes_eq_fileBody enc c hc] at hsink
  have hne : ∀ b ∈ B, b ≠ [] := by
    intro b hb hnil
    have := hpos (b.map (entryOfVal enc)) (by rw [hB]; exact List.mem_map_of_mem hb)
    rw [hnil] at this
    simp at this
  have hok : ∀ b ∈ B, BlockOk enc b :=
    blockOk_of_total enc B (by rw [hBflat]; exact hcount) (by rw [hBflat]; exact hsize)
  refine ⟨hres, ⟨B, hBflat, hne, hsink⟩, ?_⟩
  show readAll d datum _ (openSlice sync (List.drop hdr.length run.2.sink.data)) = _
  have hdrop : List.drop hdr.length run.2.sink.data = fileBody enc sync B := by
    show List.drop hdr.length (wrun c dbg w (ops.map (VOp.toWOp enc) ++ [fin])).2.sink.data = _
    rw [hsink, List.drop_left]
  rw [hdrop, ← hBflat]
  exact readAll_valid enc hn hsy hd B hok _ ⟨rfl, rfl, rfl, rfl, rfl, rfl⟩

end RoundTrip

/-! ### Part 2b. An abstract codec (law L1 as a hypothesis) -/

/-- **C05 (one compressed block is opened correctly).** Slice back-end, a codec that is neither
    null nor snappy, `decompress (compress data) = some data` (law L1, a hypothesis): on
    `count, size, compress data, sync, rest` the reader enters the block — `count` values to read
    from the decompressed bytes `data` — and remembers that `sync ++ rest` follows. -/
theorem C05_enterBlock_codec (c : Codec) (d : Decomp) (hnn : d.isNull = false)
    (hns : d.isSnappy = false) (count : Nat) (data sync rest : Bytes)
    (hL1 : d.decompress (c.compress data) = some data)
    (hcnt : Spec.InI64 (count : Int)) (hsz : Spec.InI64 ((c.compress data).length : Int))
    (r : Reader) (hos : r.outer.isSlice = true)
    (hr : r.outer.rest = encodeVarI64 count ++ (encodeVarI64 (c.compress data).length ++
      (c.compress data ++ (sync ++ rest)))) :
    enterBlock d r =
      (.ok (), { r with st := .inBlock count,
                        outer := { r.outer with rest := c.compress data ++ (sync ++ rest) },
                        after := sync ++ rest, blkLimit := (c.compress data).length,
                        blk := plainReader data 8192 }) := by
  rw [enterBlock_eq, readVarint_encode hos hcnt hr]
  simp only [show ¬ ((count : Int) < 0) by omega, if_false]
  rw [readVarint_encode (by exact hos) hsz rfl]
  simp only [show ¬ (((c.compress data).length : Int) < 0) by omega, if_false, Int.toNat_natCast]
  unfold enterTail
  simp only [hnn, hns, Bool.false_eq_true, if_false, List.length_append, gt_iff_lt]
  rw [if_neg (by omega)]
  simp only [List.take_left', hL1, List.drop_left', Int.toNat_natCast]

/-- **C05 (… and left correctly).** Once the decompressed bytes are consumed entirely, leaving the
    block checks the marker and positions the reader on what follows it. -/
theorem C05_leaveBlock_codec (d : Decomp) (hnn : d.isNull = false) (sync rest : Bytes)
    (hsy : sync.length = 16) (r : Reader) (hblk : r.blk.rest = [])
    (hos : r.outer.isSlice = true) (hol : r.outer.limit = none)
    (hafter : r.after = sync ++ rest) (hsync : r.sync = sync) :
    leaveBlock d r =
      (.ok (), { r with st := .notInBlock,
                        outer := { r.outer with rest := rest, avail := 0 } }) := by
  have hlo : leftover d r = false := by simp [leftover, hnn, hblk]
  have hot : leaveOuter d r = { r.outer with rest := r.after, avail := 0 } := by
    simp [leaveOuter, hnn]
  have h16 : 16 ≤ r.after.length := by rw [hafter]; simp; omega
  rw [leaveBlock_eq, hlo, hot,
    readExact_slice (by exact hos) (by exact hol) (by exact h16)]
  have ht : r.after.take 16 = r.sync := by
    rw [hafter, hsync, ← hsy, List.take_left']
    rfl
  have hd : r.after.drop 16 = rest := by
    rw [hafter, ← hsy, List.drop_left']
    rfl
  simp only [ht, hd, ne_eq, not_true_eq_false, if_false, Bool.false_eq_true, Nat.zero_sub]

/-- **C05 (one block, abstract codec).** The two together: from a reader (slice back-end)
    positioned on `count, size, compress data, sync, rest`, `enterBlock` yields `inBlock count`
    with the block back-end holding exactly `data`; and from any later state of that reader in
    which the `count` datums have consumed exactly `data` (block back-end empty, state
    `inBlock 0`, everything else as `enterBlock` left it), `leaveBlock` succeeds and returns to
    `notInBlock` positioned at `rest`. -/
theorem C05_roundtrip_codec (c : Codec) (d : Decomp) (hnn : d.isNull = false)
    (hns : d.isSnappy = false) (count : Nat) (data sync rest : Bytes) (hsy : sync.length = 16)
    (hL1 : d.decompress (c.compress data) = some data)
    (hcnt : Spec.InI64 (count : Int)) (hsz : Spec.InI64 ((c.compress data).length : Int))
    (r : Reader) (hos : r.outer.isSlice = true) (hol : r.outer.limit = none)
    (hsync : r.sync = sync)
    (hr : r.outer.rest = encodeVarI64 count ++ encodeVarI64 (c.compress data).length ++
      c.compress data ++ sync ++ rest) :
    ∃ r₁, enterBlock d r = (.ok (), r₁) ∧ r₁.st = .inBlock count ∧ r₁.blk.rest = data ∧
      r₁.after = sync ++ rest ∧
      ∀ blk' lim', blk'.rest = [] →
        ∃ r₂, leaveBlock d { r₁ with st := .inBlock 0, blk := blk', blkLimit := lim' } = (.ok (), r₂) ∧
          r₂.st = .notInBlock ∧ r₂.outer.rest = rest ∧ r₂.outer.isSlice = true ∧
          r₂.outer.limit = none ∧ r₂.sync = sync ∧ r₂.pretendEof = r.pretendEof := by
  have hr' : r.outer.rest = encodeVarI64 count ++ (encodeVarI64 (c.compress data).length ++
      (c.compress data ++ (sync ++ rest))) := by rw [hr]; simp only [List.append_assoc]
  refine ⟨_, C05_enterBlock_codec c d hnn hns count data sync rest hL1 hcnt hsz r hos hr',
    rfl, rfl, rfl, ?_⟩
  intro blk' lim' hb
  refine ⟨_, C05_leaveBlock_codec d hnn sync rest hsy _ hb hos hol rfl hsync, rfl, rfl, hos, hol,
    hsync, rfl⟩

/-! #### The whole file, abstract codec -/

section CodecFile
variable {α : Type} (enc : α → Bytes) (c : Codec)

/-- a block as the writer lays it out with codec `c` -/
def blockBytesC (sync : Bytes) (vals : List α) : Bytes :=
  encodeVarI64 vals.length ++ encodeVarI64 (c.compress (blockData enc vals)).length ++
    c.compress (blockData enc vals) ++ sync

/-- the file after its header -/
def fileBodyC (sync : Bytes) (blocks : List (List α)) : Bytes :=
  (blocks.map (blockBytesC enc c sync)).flatten

/-- count and compressed size fit an `i64` -/
def BlockOkC (vals : List α) : Prop :=
  Spec.InI64 (vals.length : Int) ∧ Spec.InI64 ((c.compress (blockData enc vals)).length : Int)

/-- the datum deserializer decodes what `enc` wrote, on the back-end over decompressed bytes -/
def DatumOkR (datum : RState → Except DeErr α × RState) : Prop :=
  ∀ (s : RState) (v : α) (y : Bytes), s.isSlice = false → s.rest = enc v ++ y →
    ∃ s', datum s = (.ok v, s') ∧ s'.rest = y ∧ s'.isSlice = false

/-- in a block, `vals` still to be read, then the blocks `bs` -/
structure PosC (sync : Bytes) (r : Reader) (vals : List α) (bs : List (List α)) : Prop where
  st : r.st = .inBlock vals.length
  peof : r.pretendEof = false
  hsync : r.sync = sync
  bslice : r.blk.isSlice = false
  brest : r.blk.rest = blockData enc vals
  after : r.after = sync ++ fileBodyC enc c sync bs
  oslice : r.outer.isSlice = true
  olim : r.outer.limit = none
  inv : r.after.length ≤ r.outer.rest.length

/-- between blocks, the blocks `bs` still to be read -/
structure StartC (sync : Bytes) (r : Reader) (bs : List (List α)) : Prop where
  st : r.st = .notInBlock
  peof : r.pretendEof = false
  hsync : r.sync = sync
  oslice : r.outer.isSlice = true
  olim : r.outer.limit = none
  orest : r.outer.rest = fileBodyC enc c sync bs

variable {enc c}

theorem leaveBlock_validC {d : Decomp} {sync : Bytes} {r : Reader} {bs : List (List α)}
    (hnn : d.isNull = false) (hsy : sync.length = 16) (hp : PosC enc c sync r [] bs) :
    ∃ rn, leaveBlock d r = (.ok (), rn) ∧ StartC enc c sync rn bs ∧
      rn.outer.rest.length ≤ r.after.length := by
  refine ⟨_, C05_leaveBlock_codec d hnn sync _ hsy r (by rw [hp.brest]; rfl) hp.oslice hp.olim
    hp.after hp.hsync, ⟨rfl, hp.peof, hp.hsync, hp.oslice, hp.olim, rfl⟩, ?_⟩
  rw [hp.after]; simp only [List.length_append]; omega

theorem enterBlock_validC {d : Decomp} {sync : Bytes} {r : Reader} {b : List α}
    {bs : List (List α)} (hnn : d.isNull = false) (hns : d.isSnappy = false)
    (hL1 : ∀ x, d.decompress (c.compress x) = some x)
    (hb : BlockOkC enc c b) (hp : StartC enc c sync r (b :: bs)) :
    ∃ r2, enterBlock d r = (.ok (), r2) ∧ PosC enc c sync r2 b bs ∧
      r2.after.length ≤ r.outer.rest.length := by
  obtain ⟨hst, hpe, hsy, hos, hol, hor⟩ := hp
  have hr1 : r.outer.rest = encodeVarI64 b.length ++
      (encodeVarI64 (c.compress (blockData enc b)).length ++
        (c.compress (blockData enc b) ++ (sync ++ fileBodyC enc c sync bs))) := by
    rw [hor]
    simp [fileBodyC, blockBytesC, List.append_assoc]
  refine ⟨_, C05_enterBlock_codec c d hnn hns b.length (blockData enc b) sync _ (hL1 _) hb.1 hb.2
    r hos hr1, ⟨rfl, hpe, hsy, rfl, rfl, rfl, hos, hol, ?_⟩, ?_⟩
  · simp only [List.length_append]; omega
  · simp only [hr1, List.length_append]; omega

variable {d : Decomp} {datum : RState → Except DeErr α × RState} {sync : Bytes}

theorem nextInner_posC_cons {r : Reader} {v : α} {vs : List α} {bs : List (List α)}
    (hd : DatumOkR enc datum) (hp : PosC enc c sync r (v :: vs) bs) (F : Nat) :
    ∃ r1, nextInner d datum (F + 1) r = (.ok (some v), r1) ∧ PosC enc c sync r1 vs bs := by
  obtain ⟨h1, h2, h3, h4, h5, h6, h7, h8, h9⟩ := hp
  obtain ⟨s', hs', hr', hsl'⟩ := hd r.blk v (blockData enc vs) h4 (by rw [h5]; simp [blockData])
  rw [nextInner_succ]
  simp only [h1, List.length_cons, hs']
  exact ⟨_, rfl, rfl, h2, h3, hsl', hr', h6, h7, h8, h9⟩

theorem nextInner_posC_nil (datum : RState → Except DeErr α × RState) {r : Reader}
    {bs : List (List α)} (hnn : d.isNull = false) (hsy : sync.length = 16)
    (hp : PosC enc c sync r [] bs) :
    ∃ rn, StartC enc c sync rn bs ∧ rn.outer.rest.length ≤ r.after.length ∧
      ∀ F, nextInner d datum (F + 1) r = nextInner d datum F rn := by
  obtain ⟨rn, hl, hs, hlen⟩ := leaveBlock_validC hnn hsy hp
  refine ⟨rn, hs, hlen, fun F => ?_⟩
  rw [nextInner_succ]
  simp only [hp.st, List.length_nil, hl]

theorem nextInner_startC_nil (datum : RState → Except DeErr α × RState) {r : Reader}
    (hp : StartC enc c sync r []) (F : Nat) :
    nextInner d datum (F + 1) r = (.ok none, r) := by
  obtain ⟨st, pe, sy, outer, blk, after, lim⟩ := r
  have hst := hp.st
  simp only at hst
  subst hst
  have hos : outer.isSlice = true := hp.oslice
  have hor : outer.rest = [] := by have := hp.orest; simpa [fileBodyC] using this
  rw [nextInner_succ]
  simp only [fillBuf_slice hos, hor]
  simp

theorem nextInner_startC_cons (datum : RState → Except DeErr α × RState) {r : Reader}
    {b : List α} {bs : List (List α)} (hnn : d.isNull = false) (hns : d.isSnappy = false)
    (hL1 : ∀ x, d.decompress (c.compress x) = some x)
    (hb : BlockOkC enc c b) (hp : StartC enc c sync r (b :: bs)) :
    ∃ r2, PosC enc c sync r2 b bs ∧ r2.after.length ≤ r.outer.rest.length ∧
      ∀ F, nextInner d datum (F + 1) r = nextInner d datum F r2 := by
  obtain ⟨r2, he, hp2, hlen⟩ := enterBlock_validC hnn hns hL1 hb hp
  refine ⟨r2, hp2, hlen, fun F => ?_⟩
  obtain ⟨st, pe, sy, outer, blk, after, lim⟩ := r
  have hst := hp.st
  simp only at hst
  subst hst
  have hos : outer.isSlice = true := hp.oslice
  have hne : outer.rest.isEmpty = false := by
    have hor : outer.rest = _ := hp.orest
    rw [hor]
    have := encodeVarI64_ne_nil (b.length : Int)
    cases hx : encodeVarI64 (b.length : Int) with
    | nil => exact absurd hx this
    | cons x xs => simp [fileBodyC, blockBytesC, hx]
  rw [nextInner_succ]
  simp only [fillBuf_slice hos, hne, Bool.false_eq_true, if_false]
  rw [he]

theorem mu_posC {r : Reader} {vals : List α} {bs : List (List α)}
    (hp : PosC enc c sync r vals bs) : mu r = r.after.length := by
  simp [mu, hp.st]

theorem next_posC_cons {r : Reader} {v : α} {vs : List α} {bs : List (List α)}
    (hd : DatumOkR enc datum) (hp : PosC enc c sync r (v :: vs) bs) :
    ∃ r1, next d datum r = (.ok (some v), r1) ∧ PosC enc c sync r1 vs bs := by
  obtain ⟨r1, h1, hp1⟩ := nextInner_posC_cons (d := d) hd hp (r.outer.rest.length + 3)
  exact ⟨r1, by rw [next_eq_post d datum r hp.peof, h1]; rfl, hp1⟩

theorem next_posC_nil_nil (datum : RState → Except DeErr α × RState) {r : Reader}
    (hnn : d.isNull = false) (hsy : sync.length = 16) (hp : PosC enc c sync r [] []) :
    ∃ r1, next d datum r = (.ok none, r1) := by
  obtain ⟨rn, hs, _, hstep⟩ := nextInner_posC_nil datum hnn hsy hp
  refine ⟨rn, ?_⟩
  rw [next_eq_post d datum r hp.peof, hstep (r.outer.rest.length + 3),
    nextInner_startC_nil datum hs (r.outer.rest.length + 2)]
  rfl

theorem next_posC_nil_cons (datum : RState → Except DeErr α × RState) {r : Reader}
    {b : List α} {bs : List (List α)} (hnn : d.isNull = false) (hns : d.isSnappy = false)
    (hL1 : ∀ x, d.decompress (c.compress x) = some x) (hsy : sync.length = 16)
    (hb : BlockOkC enc c b) (hp : PosC enc c sync r [] (b :: bs)) :
    ∃ r2, PosC enc c sync r2 b bs ∧ next d datum r = next d datum r2 := by
  obtain ⟨rn, hs, hl1, hstep1⟩ := nextInner_posC_nil datum hnn hsy hp
  obtain ⟨r2, hp2, hl2, hstep2⟩ := nextInner_startC_cons datum hnn hns hL1 hb hs
  refine ⟨r2, hp2, ?_⟩
  rw [next_eq_post d datum r hp.peof, next_eq_post d datum r2 hp2.peof,
    hstep1 (r.outer.rest.length + 3), hstep2 (r.outer.rest.length + 2)]
  have hm := mu_posC hp2
  have h1 := hp.inv
  have h2 := hp2.inv
  rw [nextInner_fuel d datum (r.outer.rest.length + 2) (r2.outer.rest.length + 4) r2
    (by omega) (by omega)]

theorem next_startC_nil (datum : RState → Except DeErr α × RState) {r : Reader}
    (hp : StartC enc c sync r []) : next d datum r = (.ok none, r) := by
  rw [next_eq_post d datum r hp.peof, nextInner_startC_nil datum hp (r.outer.rest.length + 3)]
  rfl

theorem next_startC_cons (datum : RState → Except DeErr α × RState) {r : Reader}
    {b : List α} {bs : List (List α)} (hnn : d.isNull = false) (hns : d.isSnappy = false)
    (hL1 : ∀ x, d.decompress (c.compress x) = some x)
    (hb : BlockOkC enc c b) (hp : StartC enc c sync r (b :: bs)) :
    ∃ r2, PosC enc c sync r2 b bs ∧ next d datum r = next d datum r2 := by
  obtain ⟨r2, hp2, hl2, hstep2⟩ := nextInner_startC_cons datum hnn hns hL1 hb hp
  refine ⟨r2, hp2, ?_⟩
  rw [next_eq_post d datum r hp.peof, next_eq_post d datum r2 hp2.peof,
    hstep2 (r.outer.rest.length + 3)]
  have hm := mu_posC hp2
  have h2 := hp2.inv
  rw [nextInner_fuel d datum (r.outer.rest.length + 3) (r2.outer.rest.length + 4) r2
    (by omega) (by omega)]

/-- reading a valid sequence of compressed blocks from inside a block yields exactly the values -/
theorem readAll_posC (hnn : d.isNull = false) (hns : d.isSnappy = false)
    (hL1 : ∀ x, d.decompress (c.compress x) = some x) (hsy : sync.length = 16)
    (hd : DatumOkR enc datum) :
    ∀ (bs : List (List α)), (∀ b ∈ bs, BlockOkC enc c b) → ∀ (vals : List α) (r : Reader),
      PosC enc c sync r vals bs →
      readAll d datum (vals.length + bs.flatten.length + 1) r = (vals ++ bs.flatten, .eos) := by
  intro bs
  induction bs with
  | nil =>
    intro _ vals
    induction vals with
    | nil =>
      intro r hp
      obtain ⟨r1, h1⟩ := next_posC_nil_nil datum hnn hsy hp
      simp [readAll, h1]
    | cons v vs ihv =>
      intro r hp
      obtain ⟨r1, h1, hp1⟩ := next_posC_cons (d := d) hd hp
      have := ihv r1 hp1
      simp only [List.flatten_nil, List.length_nil, Nat.add_zero, List.append_nil] at this ⊢
      rw [List.length_cons, readAll_succ_some h1, this]
  | cons b bs ihb =>
    intro hbs vals
    have hb : BlockOkC enc c b := hbs b (by simp)
    have hbs' : ∀ b' ∈ bs, BlockOkC enc c b' := fun b' hb' => hbs b' (by simp [hb'])
    induction vals with
    | nil =>
      intro r hp
      obtain ⟨r2, hp2, heq⟩ := next_posC_nil_cons datum hnn hns hL1 hsy hb hp
      have := ihb hbs' b r2 hp2
      rw [readAll_congr heq]
      simpa [Nat.add_assoc] using this
    | cons v vs ihv =>
      intro r hp
      obtain ⟨r1, h1, hp1⟩ := next_posC_cons (d := d) hd hp
      have := ihv r1 hp1
      have e : (v :: vs).length + (b :: bs).flatten.length + 1
          = (vs.length + (b :: bs).flatten.length + 1) + 1 := by simp; omega
      rw [e, readAll_succ_some h1, this]
      rfl

/-- **Reading a whole valid file, abstract codec** (slice back-end; law L1 a hypothesis). -/
theorem readAll_validC (hnn : d.isNull = false) (hns : d.isSnappy = false)
    (hL1 : ∀ x, d.decompress (c.compress x) = some x) (hsy : sync.length = 16)
    (hd : DatumOkR enc datum)
    (bs : List (List α)) (hbs : ∀ b ∈ bs, BlockOkC enc c b) (r : Reader)
    (hp : StartC enc c sync r bs) :
    readAll d datum (bs.flatten.length + 1) r = (bs.flatten, .eos) := by
  cases bs with
  | nil => simp [readAll, next_startC_nil datum hp]
  | cons b bs =>
    have hb : BlockOkC enc c b := hbs b (by simp)
    have hbs' : ∀ b' ∈ bs, BlockOkC enc c b' := fun b' hb' => hbs b' (by simp [hb'])
    obtain ⟨r2, hp2, heq⟩ := next_startC_cons datum hnn hns hL1 hb hp
    rw [readAll_congr heq]
    have := readAll_posC hnn hns hL1 hsy hd bs hbs' b r2 hp2
    simpa [Nat.add_assoc] using this

variable (enc c)

/-- the bridge, for a codec that is not null -/
theorem blocksBytes_eq_fileBodyC (hc : c.isNull = false) (sync : Bytes) (B : List (List α)) :
    blocksBytes c sync ((B.map (List.map (entryOfVal enc))).map blockOf)
      = fileBodyC enc c sync B := by
  simp only [blocksBytes, fileBodyC, List.map_map]
  congr 1
  apply List.map_congr_left
  intro vs _
  simp only [Function.comp, blockOf_map_entryOfVal, Ocf.blockBytes, blockBytesC, codecData,
    hc, Bool.false_eq_true, if_false]

/-- **C05 (write then read, abstract codec, slice back-end).** As `C05_roundtrip_null_slice`, for
    a writer codec `c` and a reader codec `d` (neither null nor snappy) related by law L1
    `decompress (compress x) = some x` — a hypothesis. The sizes that must fit an `i64` are those
    of the compressed blocks (hypothesis `hok` on the partition the writer chose). -/
theorem C05_roundtrip_codec_file (hc : c.isNull = false) (d : Decomp)
    (hnn : d.isNull = false) (hns : d.isSnappy = false)
    (hL1 : ∀ x, d.decompress (c.compress x) = some x)
    (datum : RState → Except DeErr α × RState) (hd : DatumOkR enc datum)
    (dbg : Bool) (hdr sync : Bytes) (hsy : sync.length = 16) (approx : Nat)
    (ops : List (VOp α)) (fin : WOp) (hfin : fin = .finishBlock ∨ fin = .intoInner ∨ fin = .drop)
    (w : WState) (h0 : Rep c hdr sync approx {} w)
    (hok : ∀ blocks : List (List α), blocks.flatten = valuesOf ops →
      ∀ b ∈ blocks, BlockOkC enc c b) :
    let run := wrun c dbg w (ops.map (VOp.toWOp enc) ++ [fin])
    run.1 = (ops.map (VOp.toWOp enc) ++ [fin]).map expected ∧
    (∃ blocks : List (List α), blocks.flatten = valuesOf ops ∧ (∀ b ∈ blocks, b ≠ []) ∧
        run.2.sink.data = hdr ++ fileBodyC enc c sync blocks) ∧
    readAll d datum ((valuesOf ops).length + 1) (openSlice sync (run.2.sink.data.drop hdr.length))
      = (valuesOf ops, .eos) := by
  intro run
  have hops : ∀ op ∈ ops.map (VOp.toWOp enc), op ≠ .intoInner := by
    intro op hop
    obtain ⟨o, _, rfl⟩ := List.mem_map.1 hop
    exact toWOp_ne_intoInner enc o
  obtain ⟨hres, hsink⟩ := wrun_closed_sink c dbg hdr sync approx _ fin hfin hops w h0
  obtain ⟨_, hflat⟩ := C15_run_finished approx (ops.map (VOp.toWOp enc)) fin hfin
    (by
      intro b k hm
      obtain ⟨o, _, ho⟩ := List.mem_map.1 hm
      cases o <;> simp [VOp.toWOp] at ho)
  have hpos : SealedPos (arun approx {} (ops.map (VOp.toWOp enc) ++ [fin])) :=
    arun_sealedPos approx {} _ (by intro b hb; simp at hb)
  rw [flatMap_entryOf_toWOp] at hflat
  obtain ⟨B, hB, hBflat⟩ := exists_partition_of_flatten_eq_map (entryOfVal enc) _ _ hflat
  rw [hB, blocksBytes_eq_fileBodyC enc c hc] at hsink
  have hne : ∀ b ∈ B, b ≠ [] := by
    intro b hb hnil
    have := hpos (b.map (entryOfVal enc)) (by rw [hB]; exact List.mem_map_of_mem hb)
    rw [hnil] at this
    simp at this
  refine ⟨hres, ⟨B, hBflat, hne, hsink⟩, ?_⟩
  show readAll d datum _ (openSlice sync (List.drop hdr.length run.2.sink.data)) = _
  have hdrop : List.drop hdr.length run.2.sink.data = fileBodyC enc c sync B := by
    show List.drop hdr.length (wrun c dbg w (ops.map (VOp.toWOp enc) ++ [fin])).2.sink.data = _
    rw [hsink, List.drop_left]
  rw [hdrop, ← hBflat]
  exact readAll_validC hnn hns hL1 hsy hd B (hok B hBflat) _ ⟨rfl, rfl, rfl, rfl, rfl, rfl⟩

end CodecFile

end Avro.Theorems
