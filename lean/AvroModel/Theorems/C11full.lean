import AvroModel.Theorems.C11
import AvroModel.Theorems.C11container
/-
C11 — all parts together: datum input (`C11.lean`: slice and reader back-ends are related step by
step, for every refill schedule) and well-formed container input on the null codec
(`C11container.lean`).
-/
