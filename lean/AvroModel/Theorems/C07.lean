import AvroModel.Lemmas.SchemaParse
/-
C07: schema parsing — names, references, rejection classes, preservation, order independence.

1. `C07_defKey_is_spec`, `C07_refKey_is_spec`: the name keys are the fullnames of the
   specification (`Spec/Names.lean`, written from the text); `C07_ref_matches_def`: every legal
   spelling of a fullname gives the same key; `C07_defKey_wf`, `C07_refKey_wf`: keys are well formed.
2. `C07_toName_fq`, `C07_toName_ofFq` (+ counterexample for the side condition).
3. Rejections: `C07_rejects_unknown_ref`, `C07_rejects_duplicate`, `C07_rejects_missing_*`,
   `C07_rejects_bare_complex`; cycle check: `C07_cycle_check_sound`, `C07_cycle_check_no_panic`,
   `C07_cycle_check_iff`, `C07_rejects_self_record`, `C07_rejects_two_cycle`, `C07_rejects_cycle`.
4. Preservation: `C07_preserves_record/enum/fixed/array/map/union`, `C07_logical_*`.
5. Order independence: `C07_order_independent_ref`, `C07_forward_ref_eq_late_lookup`,
   `C07_backward_ref_stable`, `C07_def_binds`, `C07_node_stable`, `C07_resolveKeys_eq`.
6. Whole parse: `C07_parse_ok`, `C07_parse_succeeds`, `C07_rejects_deep`.
-/
namespace Avro.Theorems
open Avro Avro.Impl

/-! ### 1. Name keys are the fullnames of the specification -/

/-- The key under which a definition is registered is the fullname the specification assigns. -/
theorem C07_defKey_is_spec (name : String) (nsAttr enc : Option String) :
    (defKey name nsAttr enc).ns = (Spec.fullnameOfDef name nsAttr enc).1 ∧
    (defKey name nsAttr enc).name = (Spec.fullnameOfDef name nsAttr enc).2 := by
  simp only [defKey, Spec.fullnameOfDef, rsplitDot_eq]
  cases Spec.splitLastDot name.toList with
  | some p => simp [nonEmpty_eq]
  | none => cases nsAttr <;> simp [nonEmpty_eq]

/-- The key looked up for a reference is the fullname the specification assigns. -/
theorem C07_refKey_is_spec (reference : String) (enc : Option String) :
    (refKey reference enc).ns = (Spec.fullnameOfRef reference enc).1 ∧
    (refKey reference enc).name = (Spec.fullnameOfRef reference enc).2 := by
  simp only [refKey, Spec.fullnameOfRef, rsplitDot_eq]
  cases Spec.splitLastDot reference.toList with
  | some p => simp [nonEmpty_eq]
  | none => simp

/-- Every legal spelling of a fullname `(ns, name)` — as a reference or as a definition —
    yields the same key. `name` is a simple name (no dot). -/
theorem C07_ref_matches_def (ns name : String) (hn : '.' ∉ name.toList) (hns : ns ≠ "")
    (enc a : Option String) :
    -- references
    refKey (ns ++ "." ++ name) enc = ⟨some ns, name⟩ ∧
    refKey ("." ++ name) enc = ⟨none, name⟩ ∧
    refKey name enc = ⟨enc, name⟩ ∧
    -- definitions: dotted name (any `namespace` attribute `a` is ignored)
    defKey (ns ++ "." ++ name) a enc = ⟨some ns, name⟩ ∧
    defKey ("." ++ name) a enc = ⟨none, name⟩ ∧
    -- definitions: `namespace` attribute, including the empty string
    defKey name (some ns) enc = ⟨some ns, name⟩ ∧
    defKey name (some "") enc = ⟨none, name⟩ ∧
    -- definitions: inherited
    defKey name none enc = ⟨enc, name⟩ := by
  have h0 : rsplitDot ("." ++ name) = some ("", name) := by
    have := rsplitDot_dotted "" name hn
    simpa using this
  refine ⟨?_, ?_, ?_, ?_, ?_, ?_, ?_, ?_⟩
  · simp [refKey, rsplitDot_dotted ns name hn, nonEmpty_of_ne hns]
  · simp [refKey, h0, nonEmpty_empty]
  · simp [refKey, rsplitDot_nodot name hn]
  · simp [defKey, rsplitDot_dotted ns name hn, nonEmpty_of_ne hns]
  · simp [defKey, h0, nonEmpty_empty]
  · simp [defKey, rsplitDot_nodot name hn, nonEmpty_of_ne hns]
  · simp [defKey, rsplitDot_nodot name hn, nonEmpty_empty]
  · simp [defKey, rsplitDot_nodot name hn]

/-- Keys produced by the parser are well formed: the simple name has no dot and the namespace is
    never the empty string (given that of the enclosing namespace). -/
theorem C07_defKey_wf (name : String) (nsAttr enc : Option String) (henc : enc ≠ some "") :
    '.' ∉ (defKey name nsAttr enc).name.toList ∧ (defKey name nsAttr enc).ns ≠ some "" := by
  simp only [defKey, rsplitDot_eq]
  cases h : Spec.splitLastDot name.toList with
  | some p =>
    obtain ⟨a, b⟩ := p
    obtain ⟨-, hb, -⟩ := splitLastDot_some h
    simpa [String.toList_ofList, hb] using nonEmpty_ne_some_empty _
  | none =>
    refine ⟨by simpa using splitLastDot_none_iff.mp h, ?_⟩
    cases nsAttr with
    | none => simpa using henc
    | some ns => simpa using nonEmpty_ne_some_empty ns

theorem C07_refKey_wf (reference : String) (enc : Option String) (henc : enc ≠ some "") :
    '.' ∉ (refKey reference enc).name.toList ∧ (refKey reference enc).ns ≠ some "" := by
  simp only [refKey, rsplitDot_eq]
  cases h : Spec.splitLastDot reference.toList with
  | some p =>
    obtain ⟨a, b⟩ := p
    obtain ⟨-, hb, -⟩ := splitLastDot_some h
    simpa [String.toList_ofList, hb] using nonEmpty_ne_some_empty _
  | none =>
    exact ⟨by simpa using splitLastDot_none_iff.mp h, by simpa using henc⟩

/-! ### 2. The `Name` built by the parser -/

theorem C07_toName_fq (k : NameKey) :
    (k.toName).fq = match k.ns with | none => k.name | some ns => ns ++ "." ++ k.name := by
  unfold NameKey.toName
  cases k.ns <;> rfl

/-- The fullname text of the specification is the `fq` of the crate's `Name`. -/
theorem C07_toName_fq_spec (k : NameKey) : (k.toName).fq = Spec.fullnameText (k.ns, k.name) := by
  unfold NameKey.toName Spec.fullnameText
  cases k.ns <;> rfl

/-- For a well-formed key (simple name without dot, namespace not the empty string) the `Name`
    the parser builds is the one `Name::from_fully_qualified_name` builds from its fullname. -/
theorem C07_toName_ofFq (k : NameKey) (hn : '.' ∉ k.name.toList) (hns : k.ns ≠ some "") :
    Name.ofFq (k.toName).fq = k.toName := by
  obtain ⟨ns, name⟩ := k
  cases ns with
  | none =>
    simp only [NameKey.toName, Name.ofFq, rfindDot_none_iff.mpr hn]
  | some ns =>
    have hne : ns ≠ "" := fun e => hns (by simp [e])
    have hl : (ns ++ "." ++ name).toList = ns.toList ++ '.' :: name.toList := by
      simp [String.toList_append]
    have hpos : ns.toList.length ≠ 0 := by
      intro h
      exact hne (String.toList_eq_nil_iff.mp (List.eq_nil_of_length_eq_zero h))
    simp only [NameKey.toName, Name.ofFq, hl, rfindDot_append hn]
    obtain ⟨m, hm⟩ := Nat.exists_eq_succ_of_ne_zero hpos
    rw [hm]
    simp only [Name.mk.injEq, true_and, Option.some.injEq]
    rw [← hm]
    simp [String.ofList_toList]

/-- The side condition on the namespace is needed: with `ns = some ""` the parser's `Name` keeps
    the leading dot while `from_fully_qualified_name` strips it. -/
theorem C07_toName_ofFq_counterexample :
    Name.ofFq (NameKey.toName ⟨some "", "a"⟩).fq ≠ NameKey.toName ⟨some "", "a"⟩ := by
  decide


/-! ### 3. Rejection classes -/

/-- Unknown reference: a pending reference whose key is not in the final name table. -/
theorem C07_rejects_unknown_ref (st : PState) (k : NameKey) (hk : k ∈ st.unresolved)
    (h : st.names.lookup k = none) : resolveKeys st = .error .custom := by
  unfold resolveKeys
  rw [mapM_option_none _ _ k hk h]

/-- Duplicate definition of a fullname. The lookup happens after the node slot was reserved;
    reserving does not touch the name table, so the condition is on `st.names`. -/
theorem C07_rejects_duplicate (fuel : Nat) (t : RawType) (o : RawAttrs) (name : String)
    (hname : o.name = some name)
    (of : Option (List (String × RawSchema))) (oi ov : Option RawSchema) (enc : Option String)
    (st : PState) (hdup : (st.names.lookup (defKey name o.nsAttr enc)).isSome) :
    registerObject (fuel + 1) t (some o) of oi ov enc st = .error .custom := by
  simp [registerObject, hname, hdup]

/-- Whatever fails in the name step fails with `custom`; hence if the body fails with `custom`
    for every outcome of the name step, the whole call does. -/
theorem registerObject_custom_of_body {fuel t object of oi ov enc} {st : PState}
    (hb : ∀ nk st1, nameStep object enc st = .ok (nk, st1) →
      bodyStep fuel t object of oi ov enc nk st1 = .error .custom) :
    registerObject (fuel + 1) t object of oi ov enc st = .error .custom := by
  rw [registerObject_eq]
  cases hn : nameStep object enc st with
  | error e => rw [nameStep_error hn]
  | ok p => obtain ⟨nk, st1⟩ := p; simp only [hb nk st1 hn]

/-- `array` without `items`. -/
theorem C07_rejects_missing_items (fuel : Nat) (object : Option RawAttrs)
    (of : Option (List (String × RawSchema))) (ov : Option RawSchema) (enc : Option String)
    (st : PState) :
    registerObject (fuel + 1) .array object of none ov enc st = .error .custom :=
  registerObject_custom_of_body fun _ _ _ => rfl

/-- `map` without `values`. -/
theorem C07_rejects_missing_values (fuel : Nat) (object : Option RawAttrs)
    (of : Option (List (String × RawSchema))) (oi : Option RawSchema) (enc : Option String)
    (st : PState) :
    registerObject (fuel + 1) .map object of oi none enc st = .error .custom :=
  registerObject_custom_of_body fun _ _ _ => rfl

/-- `record` / `enum` / `fixed` without `name`. -/
theorem C07_rejects_missing_name (fuel : Nat) (t : RawType)
    (ht : t = .record ∨ t = .enum ∨ t = .fixed) (o : RawAttrs) (hname : o.name = none)
    (of : Option (List (String × RawSchema))) (oi ov : Option RawSchema) (enc : Option String)
    (st : PState) :
    registerObject (fuel + 1) t (some o) of oi ov enc st = .error .custom := by
  apply registerObject_custom_of_body
  intro nk st1 hn
  obtain ⟨-, -, h⟩ := nameStep_ok hn
  rcases h with ⟨rfl, -, -⟩ | ⟨o', name, ho, hn', -⟩
  · rcases ht with rfl | rfl | rfl <;> rfl
  · cases ho; rw [hname] at hn'; cases hn'

/-- `record` without `fields`. -/
theorem C07_rejects_missing_fields (fuel : Nat) (object : Option RawAttrs)
    (oi ov : Option RawSchema) (enc : Option String) (st : PState) :
    registerObject (fuel + 1) .record object none oi ov enc st = .error .custom := by
  apply registerObject_custom_of_body
  intro nk st1 _
  cases nk <;> rfl

/-- `enum` without `symbols`. -/
theorem C07_rejects_missing_symbols (fuel : Nat) (o : RawAttrs) (hs : o.symbols = none)
    (of : Option (List (String × RawSchema))) (oi ov : Option RawSchema) (enc : Option String)
    (st : PState) :
    registerObject (fuel + 1) .enum (some o) of oi ov enc st = .error .custom := by
  apply registerObject_custom_of_body
  intro nk st1 _
  cases nk <;> simp [bodyStep, hs]

/-- `fixed` without `size`. -/
theorem C07_rejects_missing_size (fuel : Nat) (o : RawAttrs) (hs : o.size = none)
    (of : Option (List (String × RawSchema))) (oi ov : Option RawSchema) (enc : Option String)
    (st : PState) :
    registerObject (fuel + 1) .fixed (some o) of oi ov enc st = .error .custom := by
  apply registerObject_custom_of_body
  intro nk st1 _
  cases nk <;> simp [bodyStep, hs]

/-- A complex type without its object. -/
theorem C07_rejects_no_object (fuel : Nat) (t : RawType)
    (ht : t = .array ∨ t = .map ∨ t = .record ∨ t = .enum ∨ t = .fixed)
    (enc : Option String) (st : PState) :
    registerObject (fuel + 1) t none none none none enc st = .error .custom := by
  apply registerObject_custom_of_body
  intro nk st1 hn
  obtain ⟨-, -, h⟩ := nameStep_ok hn
  rcases h with ⟨rfl, -, -⟩ | ⟨o', name, ho, -⟩
  · rcases ht with rfl | rfl | rfl | rfl | rfl <;> rfl
  · cases ho

/-- A complex type given as a bare string (`"array"`, `"record"`, ...). -/
theorem C07_rejects_bare_complex (fuel : Nat) (t : RawType)
    (ht : t = .array ∨ t = .map ∨ t = .record ∨ t = .enum ∨ t = .fixed)
    (enc : Option String) (st : PState) :
    registerNode (fuel + 2) (.type t) enc st = .error .custom := by
  simp only [registerNode]
  exact C07_rejects_no_object fuel t ht enc st

/-- All the missing-attribute cases in one statement. -/
theorem C07_rejects_missing_attribute (fuel : Nat) (t : RawType) (object : Option RawAttrs)
    (of : Option (List (String × RawSchema))) (oi ov : Option RawSchema) (enc : Option String)
    (st : PState)
    (h : (t = .array ∧ oi = none) ∨ (t = .map ∧ ov = none) ∨ (t = .record ∧ of = none) ∨
         (t = .enum ∧ object.bind (·.symbols) = none) ∨ (t = .fixed ∧ object.bind (·.size) = none) ∨
         ((t = .record ∨ t = .enum ∨ t = .fixed) ∧ object.bind (·.name) = none) ∨
         ((t = .array ∨ t = .map ∨ t = .record ∨ t = .enum ∨ t = .fixed) ∧ object = none ∧
            of = none ∧ oi = none ∧ ov = none)) :
    registerObject (fuel + 1) t object of oi ov enc st = .error .custom := by
  rcases h with ⟨rfl, rfl⟩ | ⟨rfl, rfl⟩ | ⟨rfl, rfl⟩ | ⟨rfl, hs⟩ | ⟨rfl, hs⟩ | ⟨ht, hn⟩ | ⟨ht, rfl, rfl, rfl, rfl⟩
  · exact C07_rejects_missing_items ..
  · exact C07_rejects_missing_values ..
  · exact C07_rejects_missing_fields ..
  · apply registerObject_custom_of_body
    intro nk st1 _
    cases nk <;> simp [bodyStep, hs]
  · apply registerObject_custom_of_body
    intro nk st1 _
    cases nk <;> simp [bodyStep, hs]
  · cases object with
    | none =>
      apply registerObject_custom_of_body
      intro nk st1 hn
      obtain ⟨-, -, h⟩ := nameStep_ok hn
      rcases h with ⟨rfl, -, -⟩ | ⟨o', name, ho, -⟩
      · rcases ht with rfl | rfl | rfl <;> rfl
      · cases ho
    | some o => exact C07_rejects_missing_name fuel t ht o (by simpa using hn) ..
  · exact C07_rejects_no_object fuel t ht ..


/-! ### 4. Preservation -/

/-- `registerFields` keeps field names and their order. -/
theorem C07_registerFields_names (fuel : Nat) (fields : List (String × RawSchema))
    (ns : Option String) (st : PState) (fs : List (String × PKey)) (st' : PState)
    (h : registerFields fuel fields ns st = .ok (fs, st')) :
    fs.map (·.1) = fields.map (·.1) :=
  ((register_mono fuel).2.2.2 _ _ _ _ _ h).2

/-- A successfully registered record: its node carries the fullname of the specification, the
    fields are registered in the record's namespace, in order, with their names; the logical
    type is `logicalOf` of the attributes. -/
theorem C07_preserves_record (fuel : Nat) (o : RawAttrs) (fields : List (String × RawSchema))
    (oi ov : Option RawSchema) (enc : Option String) (st : PState) (k : PKey) (st' : PState)
    (h : registerObject (fuel + 1) .record (some o) (some fields) oi ov enc st = .ok (k, st')) :
    ∃ name fs lt st1 st2,
      o.name = some name ∧
      k = .idx st.nodes.size ∧
      logicalOf o = .ok lt ∧
      registerFields fuel fields (defKey name o.nsAttr enc).ns st1 = .ok (fs, st2) ∧
      fs.map (·.1) = fields.map (·.1) ∧
      st'.nodes[st.nodes.size]? =
        some { type := .record (defKey name o.nsAttr enc).toName fs, logical := lt } := by
  obtain ⟨nk, st1, ty, st2, lt, hn, hb, hl, hk, -, hnode⟩ := registerObject_ok h
  obtain ⟨-, -, hnk⟩ := nameStep_ok hn
  rcases hnk with ⟨rfl, -, -⟩ | ⟨o', name, ho, hname, rfl, -, -⟩
  · simp [bodyStep] at hb
  · cases ho
    simp only [bodyStep] at hb
    cases hr : registerFields fuel fields (defKey name o.nsAttr enc).ns st1 with
    | error e => rw [hr] at hb; cases hb
    | ok p =>
      obtain ⟨fs, s⟩ := p
      rw [hr] at hb
      simp only [Except.ok.injEq, Prod.mk.injEq] at hb
      obtain ⟨rfl, rfl⟩ := hb
      exact ⟨name, fs, lt, st1, s, hname, hk, hl, hr,
        C07_registerFields_names _ _ _ _ _ _ hr, hnode⟩

/-- A successfully registered enum: symbols copied verbatim. -/
theorem C07_preserves_enum (fuel : Nat) (o : RawAttrs) (of : Option (List (String × RawSchema)))
    (oi ov : Option RawSchema) (enc : Option String) (st : PState) (k : PKey) (st' : PState)
    (h : registerObject (fuel + 1) .enum (some o) of oi ov enc st = .ok (k, st')) :
    ∃ name syms lt,
      o.name = some name ∧ o.symbols = some syms ∧
      k = .idx st.nodes.size ∧
      logicalOf o = .ok lt ∧
      st'.nodes[st.nodes.size]? =
        some { type := .enum (defKey name o.nsAttr enc).toName syms, logical := lt } := by
  obtain ⟨nk, st1, ty, st2, lt, hn, hb, hl, hk, -, hnode⟩ := registerObject_ok h
  obtain ⟨-, -, hnk⟩ := nameStep_ok hn
  rcases hnk with ⟨rfl, -, -⟩ | ⟨o', name, ho, hname, rfl, -, -⟩
  · simp [bodyStep] at hb
  · cases ho
    simp only [bodyStep, Option.bind_some] at hb
    cases hs : o.symbols with
    | none => rw [hs] at hb; cases hb
    | some syms =>
      rw [hs] at hb
      simp only [Except.ok.injEq, Prod.mk.injEq] at hb
      obtain ⟨rfl, rfl⟩ := hb
      exact ⟨name, syms, lt, hname, rfl, hk, hl, hnode⟩

/-- A successfully registered fixed: size copied verbatim. -/
theorem C07_preserves_fixed (fuel : Nat) (o : RawAttrs) (of : Option (List (String × RawSchema)))
    (oi ov : Option RawSchema) (enc : Option String) (st : PState) (k : PKey) (st' : PState)
    (h : registerObject (fuel + 1) .fixed (some o) of oi ov enc st = .ok (k, st')) :
    ∃ name size lt,
      o.name = some name ∧ o.size = some size ∧
      k = .idx st.nodes.size ∧
      logicalOf o = .ok lt ∧
      st'.nodes[st.nodes.size]? =
        some { type := .fixed (defKey name o.nsAttr enc).toName size, logical := lt } := by
  obtain ⟨nk, st1, ty, st2, lt, hn, hb, hl, hk, -, hnode⟩ := registerObject_ok h
  obtain ⟨-, -, hnk⟩ := nameStep_ok hn
  rcases hnk with ⟨rfl, -, -⟩ | ⟨o', name, ho, hname, rfl, -, -⟩
  · simp [bodyStep] at hb
  · cases ho
    simp only [bodyStep, Option.bind_some] at hb
    cases hs : o.size with
    | none => rw [hs] at hb; cases hb
    | some size =>
      rw [hs] at hb
      simp only [Except.ok.injEq, Prod.mk.injEq] at hb
      obtain ⟨rfl, rfl⟩ := hb
      exact ⟨name, size, lt, hname, rfl, hk, hl, hnode⟩

/-- Arrays do not change the enclosing namespace: the items are registered in `enc`. -/
theorem C07_preserves_array (fuel : Nat) (object : Option RawAttrs)
    (of : Option (List (String × RawSchema))) (items : RawSchema) (ov : Option RawSchema)
    (enc : Option String) (st : PState) (k : PKey) (st' : PState)
    (h : registerObject (fuel + 1) .array object of (some items) ov enc st = .ok (k, st')) :
    ∃ ki lt st1 st2,
      k = .idx st.nodes.size ∧
      registerNode fuel items enc st1 = .ok (ki, st2) ∧
      st'.nodes[st.nodes.size]? = some { type := .array ki, logical := lt } := by
  obtain ⟨nk, st1, ty, st2, lt, hn, hb, hl, hk, -, hnode⟩ := registerObject_ok h
  simp only [bodyStep] at hb
  cases hr : registerNode fuel items enc st1 with
  | error e => rw [hr] at hb; cases hb
  | ok p =>
    obtain ⟨ki, s⟩ := p
    rw [hr] at hb
    simp only [Except.ok.injEq, Prod.mk.injEq] at hb
    obtain ⟨rfl, rfl⟩ := hb
    exact ⟨ki, lt, st1, s, hk, hr, hnode⟩

/-- Maps do not change the enclosing namespace. -/
theorem C07_preserves_map (fuel : Nat) (object : Option RawAttrs)
    (of : Option (List (String × RawSchema))) (oi : Option RawSchema) (values : RawSchema)
    (enc : Option String) (st : PState) (k : PKey) (st' : PState)
    (h : registerObject (fuel + 1) .map object of oi (some values) enc st = .ok (k, st')) :
    ∃ kv lt st1 st2,
      k = .idx st.nodes.size ∧
      registerNode fuel values enc st1 = .ok (kv, st2) ∧
      st'.nodes[st.nodes.size]? = some { type := .map kv, logical := lt } := by
  obtain ⟨nk, st1, ty, st2, lt, hn, hb, hl, hk, -, hnode⟩ := registerObject_ok h
  simp only [bodyStep] at hb
  cases hr : registerNode fuel values enc st1 with
  | error e => rw [hr] at hb; cases hb
  | ok p =>
    obtain ⟨ki, s⟩ := p
    rw [hr] at hb
    simp only [Except.ok.injEq, Prod.mk.injEq] at hb
    obtain ⟨rfl, rfl⟩ := hb
    exact ⟨ki, lt, st1, s, hk, hr, hnode⟩

/-- Unions do not change the enclosing namespace; branches are registered in order. -/
theorem C07_preserves_union (fuel : Nat) (branches : List RawSchema)
    (enc : Option String) (st : PState) (k : PKey) (st' : PState)
    (h : registerNode (fuel + 1) (.union branches) enc st = .ok (k, st')) :
    ∃ keys st2,
      k = .idx st.nodes.size ∧
      registerList fuel branches enc
        { st with nodes := st.nodes.push { type := .null, logical := none } } = .ok (keys, st2) ∧
      st'.nodes[st.nodes.size]? = some { type := .union keys, logical := none } := by
  simp only [registerNode] at h
  split at h
  · cases h
  · rename_i keys st2 hl
    simp only [Except.ok.injEq, Prod.mk.injEq] at h
    obtain ⟨rfl, rfl⟩ := h
    refine ⟨keys, st2, rfl, hl, ?_⟩
    have := ((register_mono fuel).2.2.1 _ _ _ _ _ hl).size
    simp only [Array.size_push] at this
    have : st.nodes.size < st2.nodes.size := by omega
    simp [this]

/-- Logical types: `decimal` keeps precision and scale, `scale` defaulting to 0. -/
theorem C07_logical_decimal (o : RawAttrs) (p : Nat) (hl : o.logicalType = some "decimal")
    (hp : o.precision = some p) :
    logicalOf o = .ok (some (.decimal (o.scale.getD 0) p)) := by
  simp [logicalOf, hl, hp]

theorem C07_logical_none (o : RawAttrs) (hl : o.logicalType = none) : logicalOf o = .ok none := by
  simp [logicalOf, hl]

/-- The named logical types map to their annotation, anything else is kept as `unknown`. -/
theorem C07_logical_table (o : RawAttrs) :
    (o.logicalType = some "uuid" → logicalOf o = .ok (some .uuid)) ∧
    (o.logicalType = some "date" → logicalOf o = .ok (some .date)) ∧
    (o.logicalType = some "time-millis" → logicalOf o = .ok (some .timeMillis)) ∧
    (o.logicalType = some "time-micros" → logicalOf o = .ok (some .timeMicros)) ∧
    (o.logicalType = some "timestamp-millis" → logicalOf o = .ok (some .timestampMillis)) ∧
    (o.logicalType = some "timestamp-micros" → logicalOf o = .ok (some .timestampMicros)) ∧
    (o.logicalType = some "duration" → logicalOf o = .ok (some .duration)) ∧
    (o.logicalType = some "big-decimal" → logicalOf o = .ok (some .bigDecimal)) := by
  refine ⟨?_, ?_, ?_, ?_, ?_, ?_, ?_, ?_⟩ <;> intro h <;> simp [logicalOf, h]


/-! ### 5. Order independence -/

/-- Late resolution, explicitly: the result of `resolveKeys` is the node vector with every child
    key sent through `resolveKey` (a resolved index stays; pending slot `j` becomes the final
    table entry of the `j`-th unresolved reference). -/
theorem C07_resolveKeys_eq (st : PState) (S : SchemaMut) (h : resolveKeys st = .ok S) :
    S = st.nodes.map fun n =>
      { logical := n.logical, type := resolveType (resolveKey st) n.type } :=
  resolveKeys_ok h

/-- `resolveKeys` succeeds exactly when every pending reference is defined in the final table. -/
theorem C07_resolveKeys_ok_iff (st : PState) :
    (∃ S, resolveKeys st = .ok S) ↔ ∀ k ∈ st.unresolved, (st.names.lookup k).isSome := by
  constructor
  · rintro ⟨S, h⟩ k hk
    cases hl : st.names.lookup k with
    | some i => rfl
    | none => rw [C07_rejects_unknown_ref st k hk hl] at h; cases h
  · intro h
    obtain ⟨r, hr⟩ := mapM_option_isSome (fun k => st.names.lookup k) _ h
    unfold resolveKeys
    rw [hr]
    exact ⟨_, rfl⟩

/-- Registration of the rest of the document only extends the state. -/
theorem C07_register_extends (fuel : Nat) (raw : RawSchema) (enc : Option String)
    (st : PState) (k : PKey) (st' : PState) (h : registerNode fuel raw enc st = .ok (k, st')) :
    st.Le st' :=
  (register_mono fuel).1 _ _ _ _ _ h

/-- A reference, registered at any point (state `st`), in a document whose registration ends in
    state `stF` where its fullname is bound to node `i`: after late resolution the child key is
    `i` — whether the definition came before the reference (`.idx`) or after it (`.pending`).

    `hle : st1.LeNU stF` (bindings persist, pending references are appended) is what relates the
    state in which a NESTED reference was registered to the FINAL state of the document: it follows
    from `C07_register_extends` for every later complete call (`PState.Le.toLeNU`), is not disturbed
    by the completion of the enclosing nodes (`PState.LeNU.nodes`, `registerObject_inner`,
    `registerUnion_inner`) and is transitive.  (The former hypothesis `st1.Le stF` is false for the
    final state: the placeholder slots of the enclosing nodes are overwritten.) -/
theorem C07_order_independent_ref (fuel : Nat) (r : String) (enc : Option String)
    (st st1 stF : PState) (k : PKey) (i : Nat)
    (h : registerNode (fuel + 1) (.ref r) enc st = .ok (k, st1))
    (hle : st1.LeNU stF)
    (hdef : stF.names.lookup (refKey r enc) = some i) :
    resolveKey stF k = i := by
  simp only [registerNode] at h
  split at h
  · rename_i i' hl
    simp only [Except.ok.injEq, Prod.mk.injEq] at h
    obtain ⟨rfl, rfl⟩ := h
    have := hle.names _ _ hl
    rw [hdef] at this
    simpa [resolveKey] using this.symm
  · simp only [Except.ok.injEq, Prod.mk.injEq] at h
    obtain ⟨rfl, rfl⟩ := h
    obtain ⟨l, hl⟩ := hle.unres
    simp only at hl
    simp [resolveKey, hl, hdef]

/-- In particular a forward reference (pending slot `j`) resolves to exactly the index a lookup
    made after the definition returns. -/
theorem C07_forward_ref_eq_late_lookup (fuel : Nat) (r : String) (enc : Option String)
    (st st1 stF : PState) (j i : Nat)
    (h : registerNode (fuel + 1) (.ref r) enc st = .ok (.pending j, st1))
    (hle : st1.LeNU stF)
    (hdef : stF.names.lookup (refKey r enc) = some i) :
    resolveKey stF (.pending j) = i ∧
    registerNode (fuel + 1) (.ref r) enc stF = .ok (.idx i, stF) := by
  refine ⟨C07_order_independent_ref fuel r enc st st1 stF _ i h hle hdef, ?_⟩
  simp [registerNode, hdef]

/-- A backward reference: the index found at registration time is still the binding of the
    fullname at the end (bindings are never overwritten — duplicates are rejected). -/
theorem C07_backward_ref_stable (fuel : Nat) (r : String) (enc : Option String)
    (st st1 stF : PState) (i : Nat)
    (h : registerNode (fuel + 1) (.ref r) enc st = .ok (.idx i, st1))
    (hle : st1.LeNU stF) :
    stF.names.lookup (refKey r enc) = some i := by
  simp only [registerNode] at h
  split at h
  · rename_i i' hl
    simp only [Except.ok.injEq, Prod.mk.injEq, PKey.idx.injEq] at h
    obtain ⟨rfl, rfl⟩ := h
    exact hle.names _ _ hl
  · simp at h

/-- A definition binds its fullname to its own node index (and, by `PState.LeNU.names`, the
    binding is never changed afterwards): so a reference whose fullname (per the specification)
    equals that of the definition resolves to the definition's node. -/
theorem C07_def_binds (fuel : Nat) (t : RawType) (o : RawAttrs) (name : String)
    (hname : o.name = some name) (of : Option (List (String × RawSchema)))
    (oi ov : Option RawSchema) (enc : Option String) (st : PState) (k : PKey) (st' : PState)
    (h : registerObject (fuel + 1) t (some o) of oi ov enc st = .ok (k, st')) :
    st'.names.lookup (defKey name o.nsAttr enc) = some st.nodes.size := by
  obtain ⟨nk, st1, ty, st2, lt, hn, hb, -, -, rfl, -⟩ := registerObject_ok h
  obtain ⟨-, -, hnk⟩ := nameStep_ok hn
  rcases hnk with ⟨-, -, ho | ⟨o', ho, hnone⟩⟩ | ⟨o', name', ho, hname', -, -, hnames⟩
  · cases ho
  · cases ho; rw [hname] at hnone; cases hnone
  · cases ho
    rw [hname] at hname'; cases hname'
    have hle := bodyStep_le (register_mono fuel).1 (register_mono fuel).2.2.2 hb
    apply hle.names
    rw [hnames]
    simp

/-- A node written during registration is still there at the end, so the preservation statements
    of section 4 hold of the final node vector — provided its slot `i` is not one of the slots
    `op` that are still placeholders in `st'` (those of the nodes that ENCLOSE the node just
    completed: they are overwritten when their own registration completes).  `st'.LeExcept op stF`
    holds between the state after any complete nested call and the final state, with `op` the
    slots of the enclosing nodes (`PState.Le.toLeExcept`, `PState.LeExcept.trans`,
    `registerObject_inner`, `registerUnion_inner`); with `op = []` it is `st'.Le stF`. -/
theorem C07_node_stable (op : List Nat) (st' stF : PState) (hle : st'.LeExcept op stF) (i : Nat)
    (n : PNode) (hop : i ∉ op) (hn : st'.nodes[i]? = some n) : stF.nodes[i]? = some n := by
  have hi : i < st'.nodes.size := by
    cases Nat.lt_or_ge i st'.nodes.size with
    | inl h => exact h
    | inr h => rw [Array.getElem?_eq_none h] at hn; cases hn
  rw [hle.nodes i hi hop, hn]

/-- The form for a state related by `Le` (a complete later call, `C07_register_extends`). -/
theorem C07_node_stable_le (st' stF : PState) (hle : st'.Le stF) (i : Nat) (n : PNode)
    (hn : st'.nodes[i]? = some n) : stF.nodes[i]? = some n :=
  C07_node_stable [] st' stF hle.toLeExcept i n (by simp) hn

/-- The node a complete call `registerObject … st = (k, st')` wrote in its own slot
    `st.nodes.size` survives the completion of every enclosing node: if the enclosing object
    registered it in its body (state `stB` at the end of the body, `st'.Le stB`), it is in the
    enclosing object's final state `stE` too. -/
theorem C07_node_survives_enclosing {fuel t object ofields oitems ovalues enc} {stO : PState} {kE stE}
    (hE : registerObject (fuel + 1) t object ofields oitems ovalues enc stO = .ok (kE, stE))
    (st' : PState) (i : Nat) (n : PNode) (hi : i ≠ stO.nodes.size)
    (hn : st'.nodes[i]? = some n)
    (hbody : ∀ nk st1 ty st2, nameStep object enc stO = .ok (nk, st1) →
      bodyStep fuel t object ofields oitems ovalues enc nk st1 = .ok (ty, st2) → st'.Le st2) :
    stE.nodes[i]? = some n := by
  obtain ⟨nk, st1, ty, st2, hn1, hb, hin⟩ := registerObject_inner hE
  exact C07_node_stable _ st' stE (hin [] st' (hbody nk st1 ty st2 hn1 hb).toLeExcept) i n
    (by simpa using hi) hn


/-! ### 3b. Records that unconditionally contain themselves -/

/-- Soundness of the cycle check: if it passes, there is no cycle through record → record field
    edges (`recEdge S i j`: `i`, `j` records and `j` the type of a field of `i`).  Out-of-fuel is
    an error, never a false "ok", so no fuel hypothesis is needed. -/
theorem C07_cycle_check_sound (S : SchemaMut) (h : checkForCycles S = .ok ()) :
    ¬ ∃ i, Relation.TransGen (recEdge S) i i := by
  rintro ⟨i, p⟩
  obtain ⟨L, sL, allL⟩ := checkForCycles_sound S h
  obtain ⟨b, e, -⟩ := transGen_head p
  exact sL.acyclic (allL i e.1) p

/-- The only errors of the cycle check are `cycle` and (model fuel) `panic`. -/
theorem C07_cycle_check_errors (S : SchemaMut) (e : SchemaErr) (h : checkForCycles S = .error e) :
    e = .cycle ∨ e = .panic :=
  checkForCycles_error S h

/-- The fuel of the cycle check always suffices (`(S.size + 2) * (maxWidth S + 2)`): it never
    reports the model's out-of-fuel `panic`. -/
theorem C07_cycle_check_no_panic (S : SchemaMut) : checkForCycles S ≠ .error .panic :=
  checkForCycles_no_panic S

/-- The `cycle` error is never spurious, and every record cycle is reported as `cycle`. -/
theorem C07_cycle_check_iff (S : SchemaMut) :
    (checkForCycles S = .error .cycle ↔ ∃ i, Relation.TransGen (recEdge S) i i) ∧
    (checkForCycles S = .ok () ↔ ¬ ∃ i, Relation.TransGen (recEdge S) i i) := by
  refine ⟨checkForCycles_eq_cycle_iff S, C07_cycle_check_sound S, ?_⟩
  intro hno
  cases h : checkForCycles S with
  | ok u => rfl
  | error e =>
    rcases C07_cycle_check_errors S e h with rfl | rfl
    · exact absurd ((checkForCycles_eq_cycle_iff S).mp h) hno
    · exact absurd h (C07_cycle_check_no_panic S)

/-- Any record cycle is rejected with the `cycle` error. -/
theorem C07_rejects_cycle (S : SchemaMut) (i : Nat) (p : Relation.TransGen (recEdge S) i i) :
    checkForCycles S = .error .cycle :=
  (checkForCycles_eq_cycle_iff S).mpr ⟨i, p⟩

/-- A record with a field whose type is the record itself is rejected, wherever it sits in the
    schema. -/
theorem C07_rejects_self_record (S : SchemaMut) (i : Nat) (nm : Name)
    (fs : List (String × Nat)) (lg : Option LogicalType)
    (hi : S[i]? = some { type := .record nm fs, logical := lg })
    (f : String) (hf : (f, i) ∈ fs) :
    checkForCycles S = .error .cycle := by
  have hrec : isRecord S i = true := by simp [isRecord, hi]
  have hkeys : i ∈ recordFieldKeys S i := by
    simp only [recordFieldKeys, hi, List.mem_map]
    exact ⟨(f, i), hf, rfl⟩
  exact C07_rejects_cycle S i (.single ⟨hrec, hrec, hkeys⟩)

/-- Two records that contain each other are rejected. -/
theorem C07_rejects_two_cycle (S : SchemaMut) (a b : Nat) (nmA nmB : Name)
    (fsA fsB : List (String × Nat)) (lgA lgB : Option LogicalType)
    (ha : S[a]? = some { type := .record nmA fsA, logical := lgA })
    (hb : S[b]? = some { type := .record nmB fsB, logical := lgB })
    (f g : String) (hf : (f, b) ∈ fsA) (hg : (g, a) ∈ fsB) :
    checkForCycles S = .error .cycle := by
  have hra : isRecord S a = true := by simp [isRecord, ha]
  have hrb : isRecord S b = true := by simp [isRecord, hb]
  have hab : b ∈ recordFieldKeys S a := by
    simp only [recordFieldKeys, ha, List.mem_map]; exact ⟨(f, b), hf, rfl⟩
  have hba : a ∈ recordFieldKeys S b := by
    simp only [recordFieldKeys, hb, List.mem_map]; exact ⟨(g, a), hg, rfl⟩
  exact C07_rejects_cycle S a (.tail (.single ⟨hra, hrb, hab⟩) ⟨hrb, hra, hba⟩)

/-- A self-reference that goes through a union, array or map (a *conditional* containment, e.g.
    the linked list `{"next": ["null", "Node"]}`) is not a `recEdge`, hence not rejected: only
    record → record field edges count. -/
theorem C07_accepts_conditional_self :
    checkForCycles #[{ type := .record ⟨"Node", "Node", none⟩ [("next", 1)], logical := none },
                     { type := .union [2, 0], logical := none },
                     { type := .null, logical := none }] = .ok () := by
  rfl

/-- What a successful parse guarantees: the document is within the recursion limit of
    `serde_json`, the stages all succeeded, every pending reference was defined, the result is
    the late-resolved node vector and it has no record cycle. -/
theorem C07_parse_ok (j : Json) (n : Nat) (S : SchemaMut) (h : parseJson j n = .ok S) :
    ∃ raw k st,
      jsonNesting j ≤ 127 ∧
      rawOfJson (rawGas j) j = .ok raw ∧
      registerNode (n + 2) raw none {} = .ok (k, st) ∧
      (∀ key ∈ st.unresolved, (st.names.lookup key).isSome) ∧
      S = (st.nodes.map fun nd =>
        { logical := nd.logical, type := resolveType (resolveKey st) nd.type }) ∧
      ¬ ∃ i, Relation.TransGen (recEdge S) i i := by
  unfold parseJson at h
  split at h
  · cases h
  · rename_i hnest
    split at h
    · cases h
    · rename_i raw hraw
      split at h
      · cases h
      · rename_i k st hreg
        split at h
        · cases h
        · rename_i S' hres
          split at h
          · cases h
          · rename_i u hcyc
            simp only [Except.ok.injEq] at h
            subst h
            refine ⟨raw, k, st, by omega, hraw, hreg, ?_, resolveKeys_ok hres,
              C07_cycle_check_sound _ hcyc⟩
            exact (C07_resolveKeys_ok_iff st).mp ⟨_, hres⟩

/-- Conversely: if the document is within the recursion limit, the stages before the cycle check
    succeed, every pending reference is defined and the resolved graph has no record cycle,
    parsing succeeds with the late-resolved node vector (the cycle check neither runs out of fuel
    nor reports a spurious cycle). -/
theorem C07_parse_succeeds (j : Json) (n : Nat) (raw : RawSchema) (k : PKey) (st : PState)
    (hnest : jsonNesting j ≤ 127)
    (hraw : rawOfJson (rawGas j) j = .ok raw)
    (hreg : registerNode (n + 2) raw none {} = .ok (k, st))
    (hres : ∀ key ∈ st.unresolved, (st.names.lookup key).isSome)
    (hacyc : ¬ ∃ i, Relation.TransGen
      (recEdge (st.nodes.map fun nd =>
        { logical := nd.logical, type := resolveType (resolveKey st) nd.type })) i i) :
    parseJson j n = .ok (st.nodes.map fun nd =>
      { logical := nd.logical, type := resolveType (resolveKey st) nd.type }) := by
  obtain ⟨S, hS⟩ := (C07_resolveKeys_ok_iff st).mpr hres
  have hSeq := resolveKeys_ok hS
  rw [← hSeq] at hacyc ⊢
  have hc := (C07_cycle_check_iff S).2.mpr hacyc
  have hn : ¬ jsonNesting j > 127 := by omega
  simp only [parseJson, hn, if_false, hraw, hreg, hS, hc]

/-- A document whose arrays / objects are nested more than 127 deep is rejected (the recursion
    limit of `serde_json`), whatever it contains. -/
theorem C07_rejects_deep (j : Json) (n : Nat) (h : 127 < jsonNesting j) :
    parseJson j n = .error .json := by
  simp [parseJson, h]

end Avro.Theorems
