import AvroModel.Theorems.C17stream
import AvroModel.Lemmas.CutClassOcf
/-
C17, the part `Theorems/C17stream.lean` leaves open: WHICH error a truncated object container file
produces, and exactly which values come before it — null codec, the real datum deserializer
`de … .any`, reader back-end under any chunk schedule and slice back-end.

The file after its header is `fileBody enc sync blocks`: per block the count, the size (`hdr`), the
concatenated canonical encodings (`blockData`), the 16-byte sync marker.  It is cut after `m`
bytes.  `cutWhere enc blocks m` says where the cut falls:

  `clean`   at a block boundary (`m = 0` included) or at/after the end of the file
            (`C17_cutWhere_clean_iff`: exactly these);
  `header`  inside the count or the size of a block, or between the two;
  `data`    count and size complete, the data of the block incomplete;
  `marker`  data complete, the sync marker incomplete or missing.

What the model says (first evaluated with `#eval` on every cut of the example file, then proved):

  READER back-end: `clean` → all values of the complete blocks, then end of stream; every other cut
  → an error of class `io` (`UnexpectedEof`: the failed varint read, the failed `read_exact` /
  `read_slice` inside a datum, the failed `read_exact` of the marker), after the values of the
  complete blocks and — for `data`/`marker` — the values of the cut block whose encodings are
  entirely present (`fitting`); after the error the reader reports end of stream for ever.

  SLICE back-end: `header` → class `custom` (`decode_var` returned `None`: "All bytes have MSB
  set … (Reached EOF)"); `data` → class `custom` (`SliceRead::take` refuses the whole block: none
  of its values is delivered); `marker` → class `io` (`read_const_size_buf` goes through
  `io::Read::read_exact`, also on a slice) after ALL the values of the block; then end of stream
  for ever.

Hypotheses beyond those of `C17_yields_prefix_null_stream`:
  * `hM : (fileBody …).length ≤ M` — the allocation cap covers the UNCUT file (there: the cut file).
    Needed: a string whose declared length exceeds `max_alloc` and which is not buffered is
    refused with a `custom` error before any read is attempted (`alloc_cap_needed`).
  * `NoBigDecimal S node` — no `big-decimal` node in the schema.  Not believed necessary (inside the
    `io::Take` of a big-decimal every failure of the model is of class `io` too), but the
    truncation simulation (`Lemmas/CutClassDe.lean`) is only carried out for states without a
    `Take` limit.  Every other node kind is covered.  Not needed on the slice back-end.
-/
namespace Avro.Theorems
open Avro Avro.Impl Avro.Impl.Ocf Avro.Impl.OcfS Avro.Theorems.Stream Avro.Theorems.Cut

/-- no `big-decimal` at `node` nor anywhere in the schema -/
def NoBigDecimal (S : Schema) (node : Node) : Prop :=
  node ≠ .bigDecimal ∧ ∀ k : Nat, S[k]? ≠ some Node.bigDecimal

variable {cfg : DeConfig} {S : Schema} {node : Node} {depth fuel : Nat}

/-! ### 1. The datum deserializer on a cut encoding -/

/-- **C17 (error class of `de` on a cut value, reader back-end, any chunk schedule).** The input is
    the canonical encoding of a good value followed by anything, cut strictly inside the encoding;
    the allocation cap covers the uncut input: `de … .any` fails with an I/O error. -/
theorem C17_datum_cut_io (cfg : DeConfig) (S : Schema) (node : Node) (depth fuel : Nat)
    (hnb : NoBigDecimal S node) (v : Spec.Value) (hv : GoodVal cfg S node depth fuel v)
    (M : Nat) (s : RState) (hb : BOk M s) (y : Bytes) (j : Nat)
    (hr : s.rest = (encD S node v ++ y).take j) (hM : (encD S node v ++ y).length ≤ M)
    (hj : j < (encD S node v).length) :
    ∃ s', de deExtModel cfg S fuel node depth false .any s = (.error .io, s') :=
  de_cut_reader_io cfg S node v _ _ depth fuel hv.enc_eq hv.obs_eq hv.fix hv.depth hv.seq hv.fuel
    hnb.2 hnb.1 M s hb y j hr hM hj

theorem de_datumCutIo (cfg : DeConfig) (S : Schema) (node : Node) (depth fuel M : Nat)
    (hnb : NoBigDecimal S node) :
    DatumCutIo (encD S node) M (GoodVal cfg S node depth fuel)
      (de deExtModel cfg S fuel node depth false .any) :=
  fun s v y j hv hk hr hM hj =>
    C17_datum_cut_io cfg S node depth fuel hnb v hv M s hk.toBOk y j hr hM hj

/-- The allocation cap must cover the value: a 5-byte byte string (`0A` then five bytes) of which
    one byte is present, cap 3 — the reader refuses the length (`custom`) before attempting the
    read that would hit the end; with cap 5 the read is attempted and fails (`io`). -/
theorem alloc_cap_needed :
    (de deExtModel {} #[.bytes] 20 .bytes 64 false .any
      { isSlice := false, rest := [10, 104], maxAlloc := 3 }).1 = .error .custom ∧
    (de deExtModel {} #[.bytes] 20 .bytes 64 false .any
      { isSlice := false, rest := [10, 104], maxAlloc := 5 }).1 = .error .io := by
  constructor <;>
  simp [de, deAny, readBytes, readLen, readVarint, fillBuf, decodeVar, decodeVarI64, decodeVarU64,
    decodeVarU64Aux, readSlice, readExactR, readSome, consume, bind, pure, DeM.fail, Prod.map,
    show (unzigzagBV (BitVec.ofNat 64 10)).toInt = 5 by decide]

/-! ### 2. The streaming reader on a cut file -/

/-- **C17 (a cut file, exactly): null codec, reader back-end, any chunk schedule, the real datum
    deserializer.**  Hypotheses of `C17_yields_prefix_null_stream`, the cap `M` covering the uncut
    file, no `big-decimal`.  Reading until the run stops (`blocks.flatten.length + 1` calls
    suffice) yields, up to the `borrowed` flags, exactly `cutVals … false blocks m` — the values of
    the complete blocks and the values of the cut block that are entirely present — and ends as
    `cutEnd false (cutWhere … blocks m)` says; after an error the reader pretends end of stream. -/
theorem C17_cut_exact_stream (d : Decomp) (hn : d.isNull = true)
    (cfg : DeConfig) (S : Schema) (node : Node) (depth fuel : Nat) (hnb : NoBigDecimal S node)
    (sync : Bytes) (hsy : sync.length = 16)
    (blocks : List (List Spec.Value)) (hbs : ∀ b ∈ blocks, BlockOk (encD S node) b)
    (hgood : ∀ v ∈ blocks.flatten, GoodVal cfg S node depth fuel v)
    (m : Nat) (sched : List Nat) (lastChunk M : Nat)
    (hM : (fileBody (encD S node) sync blocks).length ≤ M) :
    Res unborrow (fun v => unborrow (obsD S node v))
      (readAllR d (de deExtModel cfg S fuel node depth false .any) (blocks.flatten.length + 1)
        (openReader sync ((fileBody (encD S node) sync blocks).take m) sched lastChunk M))
      (cutVals (encD S node) false blocks m, cutEnd false (cutWhere (encD S node) blocks m)) := by
  rw [← expStart_eq]
  exact run_start hn hsy (de_datumCutOk_reader cfg S node depth fuel M)
    (fun _ => de_datumCutIo cfg S node depth fuel M hnb) blocks hbs hgood _ m _
    (xstart_open sync blocks m sched lastChunk M (fun _ => hM)) (Nat.lt_succ_self _)

theorem cutEnd_reader (w : Where) (h : w ≠ .clean) : cutEnd false w = .err .io := by
  cases w <;> first | rfl | exact absurd rfl h

/-- **C17 (the error class on the streaming reader).**  The file cut anywhere but at a block
    boundary / the end (`cutWhere … ≠ clean`, see `C17_cutWhere_clean_iff`): the values delivered
    are exactly `cutVals`, then comes an error of class `io`, then end of stream for ever. -/
theorem C17_cut_error_class_stream (d : Decomp) (hn : d.isNull = true)
    (cfg : DeConfig) (S : Schema) (node : Node) (depth fuel : Nat) (hnb : NoBigDecimal S node)
    (sync : Bytes) (hsy : sync.length = 16)
    (blocks : List (List Spec.Value)) (hbs : ∀ b ∈ blocks, BlockOk (encD S node) b)
    (hgood : ∀ v ∈ blocks.flatten, GoodVal cfg S node depth fuel v)
    (m : Nat) (sched : List Nat) (lastChunk M : Nat)
    (hM : (fileBody (encD S node) sync blocks).length ≤ M)
    (hcut : cutWhere (encD S node) blocks m ≠ .clean) :
    (readAll d (de deExtModel cfg S fuel node depth false .any) (blocks.flatten.length + 1)
        (openReader sync ((fileBody (encD S node) sync blocks).take m) sched lastChunk M)).1.map
          unborrow
      = (cutVals (encD S node) false blocks m).map (fun v => unborrow (obsD S node v)) ∧
    (readAll d (de deExtModel cfg S fuel node depth false .any) (blocks.flatten.length + 1)
        (openReader sync ((fileBody (encD S node) sync blocks).take m) sched lastChunk M)).2
      = .err .io ∧
    (∀ rf, rf = (readAllR d (de deExtModel cfg S fuel node depth false .any)
        (blocks.flatten.length + 1)
        (openReader sync ((fileBody (encD S node) sync blocks).take m) sched lastChunk M)).2.2 →
      next d (de deExtModel cfg S fuel node depth false .any) rf = (.ok none, rf)) := by
  obtain ⟨h1, h2, h3⟩ := C17_cut_exact_stream d hn cfg S node depth fuel hnb sync hsy blocks hbs
    hgood m sched lastChunk M hM
  rw [readAllR_eq]
  rw [cutEnd_reader _ hcut] at h2 h3
  refine ⟨h1, h2, ?_⟩
  rintro rf rfl
  exact next_pretendEof _ _ _ (h3 _ rfl)

/-- **C17 (where a cut is clean).**  `cutWhere … = clean` exactly when the cut removes nothing or
    falls on a block boundary (after the complete sync marker of the `i`-th block, `i = 0`: before
    the first block). -/
theorem C17_cutWhere_clean_iff {V : Type} (enc : V → Bytes) (sync : Bytes) (hsy : sync.length = 16)
    (blocks : List (List V)) (m : Nat) :
    cutWhere enc blocks m = .clean ↔
      ((fileBody enc sync blocks).length ≤ m ∨
        ∃ i, i ≤ blocks.length ∧ m = (fileBody enc sync (blocks.take i)).length) :=
  cutWhere_clean_iff enc sync hsy blocks m

/-- **C17 (a cut at a block boundary is a clean end of stream), reader back-end.**  The file cut
    after its first `i` blocks: the values of these blocks, all of them, then end of stream, no
    error (the reader cannot tell the file from a complete one). No hypothesis on `big-decimal`
    is needed here beyond the theorem it instantiates. -/
theorem C17_cut_at_boundary_clean (d : Decomp) (hn : d.isNull = true)
    (cfg : DeConfig) (S : Schema) (node : Node) (depth fuel : Nat) (hnb : NoBigDecimal S node)
    (sync : Bytes) (hsy : sync.length = 16)
    (blocks : List (List Spec.Value)) (hbs : ∀ b ∈ blocks, BlockOk (encD S node) b)
    (hgood : ∀ v ∈ blocks.flatten, GoodVal cfg S node depth fuel v)
    (i : Nat) (hi : i ≤ blocks.length) (sched : List Nat) (lastChunk M : Nat)
    (hM : (fileBody (encD S node) sync blocks).length ≤ M) :
    (readAll d (de deExtModel cfg S fuel node depth false .any) (blocks.flatten.length + 1)
        (openReader sync ((fileBody (encD S node) sync blocks).take
          (fileBody (encD S node) sync (blocks.take i)).length) sched lastChunk M)).1.map unborrow
      = (blocks.take i).flatten.map (fun v => unborrow (obsD S node v)) ∧
    (readAll d (de deExtModel cfg S fuel node depth false .any) (blocks.flatten.length + 1)
        (openReader sync ((fileBody (encD S node) sync blocks).take
          (fileBody (encD S node) sync (blocks.take i)).length) sched lastChunk M)).2 = .eos := by
  obtain ⟨h1, h2, _⟩ := C17_cut_exact_stream d hn cfg S node depth fuel hnb sync hsy blocks hbs
    hgood (fileBody (encD S node) sync (blocks.take i)).length sched lastChunk M hM
  rw [readAllR_eq]
  have hc : cutWhere (encD S node) blocks (fileBody (encD S node) sync (blocks.take i)).length
      = .clean := (cutWhere_clean_iff _ sync hsy blocks _).2 (.inr ⟨i, hi, rfl⟩)
  rw [hc] at h2
  rw [cutVals_boundary _ false sync hsy] at h1
  exact ⟨h1, h2⟩

/-- … and conversely: the run ends with end of stream ONLY IF the cut is at a block boundary or
    removes nothing. -/
theorem C17_clean_only_at_boundary (d : Decomp) (hn : d.isNull = true)
    (cfg : DeConfig) (S : Schema) (node : Node) (depth fuel : Nat) (hnb : NoBigDecimal S node)
    (sync : Bytes) (hsy : sync.length = 16)
    (blocks : List (List Spec.Value)) (hbs : ∀ b ∈ blocks, BlockOk (encD S node) b)
    (hgood : ∀ v ∈ blocks.flatten, GoodVal cfg S node depth fuel v)
    (m : Nat) (sched : List Nat) (lastChunk M : Nat)
    (hM : (fileBody (encD S node) sync blocks).length ≤ M)
    (heos : (readAll d (de deExtModel cfg S fuel node depth false .any)
        (blocks.flatten.length + 1)
        (openReader sync ((fileBody (encD S node) sync blocks).take m) sched lastChunk M)).2
      = .eos) :
    (fileBody (encD S node) sync blocks).length ≤ m ∨
      ∃ i, i ≤ blocks.length ∧ m = (fileBody (encD S node) sync (blocks.take i)).length := by
  apply (cutWhere_clean_iff _ sync hsy blocks m).1
  apply Classical.byContradiction
  intro hcut
  have := (C17_cut_error_class_stream d hn cfg S node depth fuel hnb sync hsy blocks hbs hgood m
    sched lastChunk M hM hcut).2.1
  rw [this] at heos
  cases heos

/-! ### 3. The slice back-end on a cut file -/

/-- **C17 (a cut file, exactly): null codec, SLICE back-end, the real datum deserializer.**
    The values delivered are exactly (not only up to `borrowed`) the `observe`s of
    `cutVals … true blocks m` — the complete blocks, and the cut block only if all its data is
    present (the cut is in its marker) — and the run ends as `cutEnd true (cutWhere …)` says:
    `custom` for a cut in a count / size / data, `io` for a cut in a marker. After an error the
    reader pretends end of stream. No hypothesis on the schema: on a slice the datum deserializer
    never sees a cut block. -/
theorem C17_cut_exact_slice (d : Decomp) (hn : d.isNull = true)
    (cfg : DeConfig) (S : Schema) (node : Node) (depth fuel : Nat)
    (sync : Bytes) (hsy : sync.length = 16)
    (blocks : List (List Spec.Value)) (hbs : ∀ b ∈ blocks, BlockOk (encD S node) b)
    (hgood : ∀ v ∈ blocks.flatten, GoodVal cfg S node depth fuel v) (m : Nat) :
    Res id (obsD S node)
      (readAllR d (de deExtModel cfg S fuel node depth false .any) (blocks.flatten.length + 1)
        (openSlice sync ((fileBody (encD S node) sync blocks).take m)))
      (cutVals (encD S node) true blocks m, cutEnd true (cutWhere (encD S node) blocks m)) := by
  rw [← expStart_eq, openSlice_eq]
  exact run_start hn hsy (de_datumCutOk_slice cfg S node depth fuel 536870912) nofun blocks hbs
    hgood _ m _ (xstart_open sync blocks m [] 1 536870912 nofun) (Nat.lt_succ_self _)

/-- **C17 (the error class on the slice back-end).** -/
theorem C17_cut_error_class_slice (d : Decomp) (hn : d.isNull = true)
    (cfg : DeConfig) (S : Schema) (node : Node) (depth fuel : Nat)
    (sync : Bytes) (hsy : sync.length = 16)
    (blocks : List (List Spec.Value)) (hbs : ∀ b ∈ blocks, BlockOk (encD S node) b)
    (hgood : ∀ v ∈ blocks.flatten, GoodVal cfg S node depth fuel v) (m : Nat)
    (hcut : cutWhere (encD S node) blocks m ≠ .clean) :
    readAll d (de deExtModel cfg S fuel node depth false .any) (blocks.flatten.length + 1)
        (openSlice sync ((fileBody (encD S node) sync blocks).take m))
      = ((cutVals (encD S node) true blocks m).map (obsD S node),
         .err (if cutWhere (encD S node) blocks m = .marker then .io else .custom)) ∧
    (∀ rf, rf = (readAllR d (de deExtModel cfg S fuel node depth false .any)
        (blocks.flatten.length + 1)
        (openSlice sync ((fileBody (encD S node) sync blocks).take m))).2.2 →
      next d (de deExtModel cfg S fuel node depth false .any) rf = (.ok none, rf)) := by
  obtain ⟨h1, h2, h3⟩ := C17_cut_exact_slice d hn cfg S node depth fuel sync hsy blocks hbs
    hgood m
  rw [readAllR_eq]
  rw [List.map_id] at h1
  have he : cutEnd true (cutWhere (encD S node) blocks m)
      = .err (if cutWhere (encD S node) blocks m = .marker then .io else .custom) := by
    cases hw : cutWhere (encD S node) blocks m with
    | clean => exact absurd hw hcut
    | header => rfl
    | data => rfl
    | marker => rfl
  rw [he] at h2 h3
  refine ⟨Prod.ext h1 h2, ?_⟩
  rintro rf rfl
  exact next_pretendEof _ _ _ (h3 _ rfl)

/-- a cut at a block boundary on the slice back-end: the complete blocks, end of stream -/
theorem C17_cut_at_boundary_clean_slice (d : Decomp) (hn : d.isNull = true)
    (cfg : DeConfig) (S : Schema) (node : Node) (depth fuel : Nat)
    (sync : Bytes) (hsy : sync.length = 16)
    (blocks : List (List Spec.Value)) (hbs : ∀ b ∈ blocks, BlockOk (encD S node) b)
    (hgood : ∀ v ∈ blocks.flatten, GoodVal cfg S node depth fuel v)
    (i : Nat) (hi : i ≤ blocks.length) :
    readAll d (de deExtModel cfg S fuel node depth false .any) (blocks.flatten.length + 1)
        (openSlice sync ((fileBody (encD S node) sync blocks).take
          (fileBody (encD S node) sync (blocks.take i)).length))
      = ((blocks.take i).flatten.map (obsD S node), .eos) := by
  obtain ⟨h1, h2, _⟩ := C17_cut_exact_slice d hn cfg S node depth fuel sync hsy blocks hbs
    hgood (fileBody (encD S node) sync (blocks.take i)).length
  rw [readAllR_eq]
  have hc : cutWhere (encD S node) blocks (fileBody (encD S node) sync (blocks.take i)).length
      = .clean := (cutWhere_clean_iff _ sync hsy blocks _).2 (.inr ⟨i, hi, rfl⟩)
  rw [hc] at h2
  rw [cutVals_boundary _ true sync hsy, List.map_id] at h1
  exact Prod.ext h1 h2

/-! ### 4. Non-vacuity: one cut of each kind, on the example file of `C17stream`

`exFile` = `04 04 02 04` marker(16) `02 04 D8 04` marker(16): two blocks, the ints `[1, 2]` and
`[300]`; 40 bytes; block boundaries at 0, 20, 40. -/

namespace C17class
open C17stream
set_option linter.unusedSimpArgs false

/-- where the cuts fall -/
theorem exWhere :
    cutWhere exEnc exBlocks 0 = .clean ∧ cutWhere exEnc exBlocks 1 = .header ∧
    cutWhere exEnc exBlocks 2 = .data ∧ cutWhere exEnc exBlocks 3 = .data ∧
    cutWhere exEnc exBlocks 4 = .marker ∧ cutWhere exEnc exBlocks 19 = .marker ∧
    cutWhere exEnc exBlocks 20 = .clean ∧ cutWhere exEnc exBlocks 21 = .header ∧
    cutWhere exEnc exBlocks 23 = .data ∧ cutWhere exEnc exBlocks 30 = .marker ∧
    cutWhere exEnc exBlocks 40 = .clean ∧ cutWhere exEnc exBlocks 41 = .clean := by
  simp [cutWhere, hdr, Stream.blockData, exBlocks, exEnc1, exEnc2, exEnc300, exVar1, exVar2]

/-- which values are delivered: the reader delivers the first value of a cut block, the slice
    refuses the block -/
theorem exVals :
    cutVals exEnc false exBlocks 3 = [.int 1] ∧ cutVals exEnc true exBlocks 3 = [] ∧
    cutVals exEnc false exBlocks 23 = [.int 1, .int 2] ∧
    cutVals exEnc true exBlocks 30 = [.int 1, .int 2, .int 300] := by
  simp [cutVals, fitting, hdr, Stream.blockData, exBlocks, exEnc1, exEnc2, exEnc300, exVar1, exVar2]

theorem exNoBig : NoBigDecimal #[.int] .int := by
  refine ⟨nofun, fun k => ?_⟩
  cases k <;> simp

theorem exLen : (fileBody exEnc exSync exBlocks).length = 40 := by
  show exFile.length = 40
  rw [exFile_eq]; rfl

/-- the general theorems apply to the example: every cut that is not clean, every chunk
    schedule — class `io` on the reader … -/
theorem ex_class_stream (m : Nat) (sched : List Nat) (lastChunk : Nat)
    (h : cutWhere exEnc exBlocks m ≠ .clean) :
    (readAll exNull exDatum 4 (openReader exSync (exFile.take m) sched lastChunk 1000)).2
      = .err .io :=
  (C17_cut_error_class_stream exNull rfl {} #[.int] .int 64 20 exNoBig exSync rfl exBlocks
    exBlockOk exGood m sched lastChunk 1000 (by rw [show encD #[.int] .int = exEnc from rfl, exLen]; omega) h).2.1

/-- … and `custom` or `io` on the slice -/
theorem ex_class_slice (m : Nat) (h : cutWhere exEnc exBlocks m ≠ .clean) :
    (readAll exNull exDatum 4 (openSlice exSync (exFile.take m))).2
      = .err (if cutWhere exEnc exBlocks m = .marker then .io else .custom) :=
  congrArg Prod.snd (C17_cut_error_class_slice exNull rfl {} #[.int] .int 64 20 exSync rfl
    exBlocks exBlockOk exGood m h).1

/-- at the boundary between the two blocks: the two values of the first, end of stream -/
theorem ex_boundary (sched : List Nat) (lastChunk : Nat) :
    (readAll exNull exDatum 4 (openReader exSync (exFile.take 20) sched lastChunk 1000)).2
      = .eos := by
  have h := (C17_cut_at_boundary_clean exNull rfl {} #[.int] .int 64 20 exNoBig exSync rfl exBlocks
    exBlockOk exGood 1 (by decide) sched lastChunk 1000
    (by rw [show encD #[.int] .int = exEnc from rfl, exLen]; omega)).2
  have e : (fileBody (encD #[.int] .int) exSync (exBlocks.take 1)).length = 20 := by
    show (fileBody exEnc exSync (exBlocks.take 1)).length = 20
    simp [fileBody, Stream.blockBytes, Stream.blockData, exBlocks, exEnc1, exEnc2, exVar2, exSync]
  rw [e] at h
  exact h

/-- Direct evaluation, reader back-end, chunks of 1, 2, then 3 bytes: a cut between count and
    size (1), in the data (3), in the marker (10), at the block boundary (20), in the second
    block's size (21). -/
theorem ex_eval_stream :
    readAll exNull exDatum 4 (openReader exSync (exFile.take 1) [1, 2] 3 1000) = ([], .err .io) ∧
    readAll exNull exDatum 4 (openReader exSync (exFile.take 3) [1, 2] 3 1000)
      = ([.i32 1], .err .io) ∧
    readAll exNull exDatum 4 (openReader exSync (exFile.take 10) [1, 2] 3 1000)
      = ([.i32 1, .i32 2], .err .io) ∧
    readAll exNull exDatum 4 (openReader exSync (exFile.take 20) [1, 2] 3 1000)
      = ([.i32 1, .i32 2], .eos) ∧
    readAll exNull exDatum 4 (openReader exSync (exFile.take 21) [1, 2] 3 1000)
      = ([.i32 1, .i32 2], .err .io) := by
  rw [exFile_eq]
  refine ⟨?_, ?_, ?_, ?_, ?_⟩ <;>
  simp [readAll, next, nextInner, enterBlock, leaveBlock, fillBuf, readVarint, decodeVar,
    decodeVarI32, decodeVarI64, decodeVarU64, decodeVarU64Aux, readExact, readExactR, readSome,
    consume, exDatum, de, deAny, exBytes, exSync, exNull, openSrc, bind, pure, exUz2, exUz4, srcAfterBlock, srcAfterBlockGo,
    exUz600, varintBytewise, DeM.fail, Prod.map, ofDe]

/-- Direct evaluation, slice back-end: `custom` in a header (1) and in the data (3, the block is
    refused: no value), `io` in the marker (10, both values delivered first), clean at 20. -/
theorem ex_eval_slice :
    readAll exNull exDatum 4 (openSlice exSync (exFile.take 1)) = ([], .err .custom) ∧
    readAll exNull exDatum 4 (openSlice exSync (exFile.take 3)) = ([], .err .custom) ∧
    readAll exNull exDatum 4 (openSlice exSync (exFile.take 10)) = ([.i32 1, .i32 2], .err .io) ∧
    readAll exNull exDatum 4 (openSlice exSync (exFile.take 20)) = ([.i32 1, .i32 2], .eos) := by
  rw [exFile_eq]
  refine ⟨?_, ?_, ?_, ?_⟩ <;>
  simp [readAll, next, nextInner, enterBlock, leaveBlock, fillBuf, readVarint, decodeVar,
    decodeVarI32, decodeVarI64, decodeVarU64, decodeVarU64Aux, readExact, readExactR, readSome,
    consume, exDatum, de, deAny, exBytes, exSync, exNull, openSlice, bind, pure, exUz2, exUz4,
    exUz600, varintBytewise, DeM.fail, Prod.map, ofDe]

end C17class

end Avro.Theorems
