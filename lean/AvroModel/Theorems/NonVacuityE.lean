import AvroModel.Theorems.C09global
import AvroModel.Theorems.C10
import AvroModel.Theorems.C19
import AvroModel.Theorems.C04
import AvroModel.Theorems.C04fuel
import AvroModel.Theorems.GraphFuel
/-
Non-vacuity audit, area E (C09 render side, C10, C19): concrete, non-trivial instances of the
headline theorems, at the driver's `graphFuel` — the REAL `Avro.Impl.graphFuel`
(`Lemmas/DriverFuel.lean`) that `Driver/Main.lean` uses, not a copy — and proved witnesses of the
gaps found.  The link between the theorems' fuel bounds and `graphFuel` (`bounds_le_graphFuel`,
`reparsed_at_graphFuel`, found by this audit) now lives in `Theorems/GraphFuel.lean` together with
the registered corollaries `*_at_graphFuel`, which are instantiated here.  The parser side of C09
(`C09_reparsed_*`) is in `NonVacuityE2.lean`.
-/
namespace Avro.NonVacuityE
open Avro Avro.Impl Avro.Theorems Avro.Spec.Pcf
open Avro.Impl.Freeze Avro.Impl.Lifetimes Avro.Lemmas.Lifetimes

/-- `graphFuel` below is the driver's (`Avro.Impl.graphFuel`) -/
example (S : SchemaMut) : graphFuel S = (S.size + 2) * (S.size + 2) * (maxWidth S + 2) + 64 := rfl

/-! ## C19: the theorems' bounds against the driver's fuel

`Theorems.bounds_le_graphFuel`, `pcfBound_le_graphFuel`, `renderBound_le_graphFuel`
(`Theorems/GraphFuel.lean`). -/

example (S : SchemaMut) : max (pcfBound S) (renderBound S) ≤ graphFuel S := bounds_le_graphFuel S

/-! ## C09 global: a graph with namespaces, an empty namespace under a namespaced parent, recursion, shared named and unnamed nodes, logical types; fuel = the driver's -/

def gE : SchemaMut := #[
  ⟨.record ⟨"ns.Node", "Node", some "ns"⟩
      [("value", 1), ("next", 2), ("color", 3), ("more", 4), ("top", 6), ("top2", 6), ("box", 7)], none⟩,
  ⟨.long, some .timestampMicros⟩,
  ⟨.union [5, 0], none⟩,
  ⟨.enum ⟨"other.Color", "Color", some "other"⟩ ["R", "G"], none⟩,
  ⟨.array 3, none⟩,
  ⟨.null, none⟩,
  ⟨.fixed ⟨"Top", "Top", none⟩ 16, some (.decimal 2 10)⟩,
  ⟨.record ⟨"other.Box", "Box", some "other"⟩ [("c", 3), ("n", 2), ("t", 6), ("again", 4)], none⟩]

def jE : Json :=
  .obj [("type", .str "record"), ("name", .str "ns.Node"), ("fields", .arr [
    .obj [("name", .str "value"), ("type",
      .obj [("logicalType", .str "timestamp-micros"), ("type", .str "long")])],
    .obj [("name", .str "next"), ("type", .arr [.str "null", .str "Node"])],
    .obj [("name", .str "color"), ("type", .obj [("type", .str "enum"),
      ("name", .str "other.Color"), ("symbols", .arr [.str "R", .str "G"])])],
    .obj [("name", .str "more"), ("type",
      .obj [("type", .str "array"), ("items", .str "other.Color")])],
    .obj [("name", .str "top"), ("type", .obj [("logicalType", .str "decimal"),
      ("type", .str "fixed"), ("scale", .nat 2), ("precision", .nat 10),
      ("namespace", .str ""), ("name", .str "Top"), ("size", .nat 16)])],
    .obj [("name", .str "top2"), ("type", .str ".Top")],
    .obj [("name", .str "box"), ("type", .obj [("type", .str "record"),
      ("name", .str "other.Box"), ("fields", .arr [
        .obj [("name", .str "c"), ("type", .str "Color")],
        .obj [("name", .str "n"), ("type", .arr [.str "null", .str "ns.Node"])],
        .obj [("name", .str "t"), ("type", .str ".Top")],
        .obj [("name", .str "again"), ("type",
          .obj [("type", .str "array"), ("items", .str "Color")])]])])]])]

theorem graphFuel_gE : graphFuel gE = 964 := by decide +kernel

theorem gE_render : renderJson gE (graphFuel gE) = .ok jE := by
  rw [graphFuel_gE]; rfl

theorem gE_wf : ∀ (i : Nat) (node : RawNode) (nm : Name),
    gE[i]? = some node → RenderPcf.nameOf node.type = some nm → nm.WF :=
  (namesWFb_iff gE).mp (by decide +kernel)

example :
    noForwardRefs jE = true ∧
    ∃ text, parsingCanonicalForm jE = some text ∧
      ∀ fuel', graphFuel gE ≤ fuel' → canonicalForm gE fuel' = .ok text :=
  C09_render_has_graph_pcf gE (graphFuel gE) jE gE_wf gE_render

/-- `C09_render_has_graph_pcf_at_graphFuel` / `_dec_at_graphFuel`: renderer and canonical-form
    writer both at the driver's fuel -/
example :
    noForwardRefs jE = true ∧
    ∃ text, parsingCanonicalForm jE = some text ∧ canonicalForm gE (graphFuel gE) = .ok text :=
  C09_render_has_graph_pcf_at_graphFuel gE jE gE_wf gE_render

example :
    noForwardRefs jE = true ∧
    ∃ text, parsingCanonicalForm jE = some text ∧ canonicalForm gE (graphFuel gE) = .ok text :=
  C09_render_has_graph_pcf_dec_at_graphFuel gE jE (by decide +kernel) gE_render

/-- the text is the expected one (recursive reference `ns.Node`, `Top` without namespace, logical
    types dropped) -/
example : parsingCanonicalForm jE = some
    "{\"name\":\"ns.Node\",\"type\":\"record\",\"fields\":[{\"name\":\"value\",\"type\":\"long\"},{\"name\":\"next\",\"type\":[\"null\",\"ns.Node\"]},{\"name\":\"color\",\"type\":{\"name\":\"other.Color\",\"type\":\"enum\",\"symbols\":[\"R\",\"G\"]}},{\"name\":\"more\",\"type\":{\"type\":\"array\",\"items\":\"other.Color\"}},{\"name\":\"top\",\"type\":{\"name\":\"Top\",\"type\":\"fixed\",\"size\":16}},{\"name\":\"top2\",\"type\":\"Top\"},{\"name\":\"box\",\"type\":{\"name\":\"other.Box\",\"type\":\"record\",\"fields\":[{\"name\":\"c\",\"type\":\"other.Color\"},{\"name\":\"n\",\"type\":[\"null\",\"ns.Node\"]},{\"name\":\"t\",\"type\":\"Top\"},{\"name\":\"again\",\"type\":{\"type\":\"array\",\"items\":\"other.Color\"}}]}}]}" := by
  decide +kernel

example : renderedNoForwardRefs gE (graphFuel gE) = true ∧
    renderedPcf gE (graphFuel gE) = graphPcf gE (graphFuel gE) :=
  C09_global_eval gE (graphFuel gE) (by decide +kernel) (by decide +kernel)

/-! The bridge for `C09_reparsed_has_same_pcf` (its conclusion speaks of every fuel `≥ n + 2`, `n`
the parser's node-count parameter, a range that may miss `graphFuel`: `NonVacuityE2.lean`,
`gEnum`) is `Theorems.reparsed_at_graphFuel` / `canonicalForm_at_graphFuel_of_large`
(`Theorems/GraphFuel.lean`), from `C19_pcf_stable`. -/

example (S' : SchemaMut) (n : Nat) (text : String)
    (h : ∀ fuel'', n + 2 ≤ fuel'' → canonicalForm S' fuel'' = .ok text) :
    canonicalForm S' (graphFuel S') = .ok text := reparsed_at_graphFuel S' n text h

/-! ## C09 / C19: unnamed cycles - covered case and a case the hypothesis `C 0` excludes -/

/-- the root union leads (through its second branch) into the cycle map → array → map -/
def gCyc : SchemaMut := #[
  ⟨.union [1, 2], none⟩, ⟨.int, none⟩, ⟨.map 3, none⟩, ⟨.array 2, none⟩]

theorem gCyc_closed : UnnamedClosed gCyc (fun k => k = 0 ∨ k = 2 ∨ k = 3) := by
  intro k hk
  rcases hk with rfl | rfl | rfl
  · exact ⟨_, rfl, 2, by decide, Or.inr (Or.inl rfl)⟩
  · exact ⟨_, rfl, Or.inr (Or.inr rfl)⟩
  · exact ⟨_, rfl, Or.inr (Or.inl rfl)⟩

example (fuel : Nat) (j : Json) : renderJson gCyc fuel ≠ .ok j :=
  C09_unnamed_cycle_never_ok gCyc _ gCyc_closed (Or.inl rfl) fuel j

example : renderJson gCyc (graphFuel gCyc) = .error .custom :=
  C09_unnamed_cycle_err_general gCyc _ gCyc_closed (Or.inl rfl) _ (renderBound_le_graphFuel gCyc)

example (fuel : Nat) (t : String) : canonicalForm gCyc fuel ≠ .ok t :=
  C19_pcf_unnamed_cycle_never_ok gCyc _ gCyc_closed (Or.inl rfl) fuel t

/-- GAP: the unnamed cycle (array 1 → array 1) is reached through a record -/
def gRecCyc : SchemaMut := #[
  ⟨.record ⟨"R", "R", none⟩ [("f", 1)], none⟩, ⟨.array 1, none⟩]

theorem gRecCyc_not_covered : ¬ ∃ C, UnnamedClosed gRecCyc C ∧ C 0 := by
  rintro ⟨C, hC, h0⟩
  obtain ⟨node, hn, hm⟩ := hC 0 h0
  have : node = ⟨.record ⟨"R", "R", none⟩ [("f", 1)], none⟩ := by
    have : gRecCyc[0]? = some ⟨.record ⟨"R", "R", none⟩ [("f", 1)], none⟩ := rfl
    rw [this] at hn; exact (Option.some.inj hn).symm
  subst this
  exact hm

example : renderJson gRecCyc (graphFuel gRecCyc) = .error .custom := by rfl
example : canonicalForm gRecCyc (graphFuel gRecCyc) = .error .custom := by rfl

/-! ## C19: totality on a wild graph, arbitrary states -/

/-- the driver's fuel is never exhausted, for every graph -/
theorem driver_fuel_total (S : SchemaMut) (kept : Bool) :
    canonicalForm S (graphFuel S) ≠ .error .panic ∧
    renderJson S (graphFuel S) ≠ .error .panic ∧
    freeze S kept (graphFuel S) ≠ .error .panic ∧
    checkForCycles S ≠ .error .panic :=
  ⟨C19_pcf_total_at_graphFuel S, C19_render_total_at_graphFuel S,
   C19_freeze_total_at_graphFuel S kept, C19_cyclecheck_total S⟩

/-- shared union (node 1, referenced by `a` and `b`), shared enum, an unnamed cycle map 2 → array 5 → map 2
    reached through the record, a dangling key (field `d` → 9, and array 6 → 11), a logical type on a union (7) -/
def gWild : SchemaMut := #[
  ⟨.record ⟨"R", "R", none⟩ [("a", 1), ("b", 1), ("c", 2), ("d", 9), ("e", 7)], none⟩,
  ⟨.union [3, 4], none⟩,
  ⟨.map 5, none⟩,
  ⟨.int, none⟩,
  ⟨.enum ⟨"x.E", "E", some "x"⟩ ["A"], none⟩,
  ⟨.array 2, none⟩,
  ⟨.array 11, some .uuid⟩,
  ⟨.union [3], some .date⟩]

example : graphFuel gWild = 764 ∧ pcfBound gWild = 433 := by decide +kernel

example : canonicalForm gWild (graphFuel gWild) ≠ .error .panic ∧
    renderJson gWild (graphFuel gWild) ≠ .error .panic ∧
    freeze gWild false (graphFuel gWild) ≠ .error .panic ∧
    checkForCycles gWild ≠ .error .panic := driver_fuel_total gWild false

example : canonicalForm gWild (graphFuel gWild) = .error .custom := by rfl
example : renderJson gWild (graphFuel gWild) = .error .custom := by rfl
example : freeze gWild false (graphFuel gWild) = .error .custom := by rfl
example : freeze gWild true (graphFuel gWild) = .error .custom := by rfl
example : checkForCycles gWild = .ok () := by rfl
/-- a record that contains itself: a proper error, not the out-of-fuel marker -/
example : checkForCycles #[⟨.record ⟨"R", "R", none⟩ [("g", 1), ("f", 0)], none⟩, ⟨.int, none⟩] = .error .cycle := by
  rfl

example : schemaFingerprint gWild (graphFuel gWild) ≠ .error .panic :=
  C19_fingerprint_total_at_graphFuel gWild

example : canonicalForm gWild (graphFuel gWild) = canonicalForm gWild (pcfBound gWild) :=
  C19_pcf_stable_at_graphFuel gWild
example : renderJson gWild (graphFuel gWild) = renderJson gWild (renderBound gWild) :=
  C19_render_stable_at_graphFuel gWild

/-- any state, even a senseless one -/
def stJunk : PcfState := { out := "zz", written := [7, 7, 0, 99], onPath := [(1, 3), (2, 5), (50, 1)] }

example : pcf gWild (graphFuel gWild) 1 stJunk ≠ .error .panic :=
  C19_pcf_total_any_state gWild _ 1 stJunk (pcfBound_le_graphFuel gWild)

example : pcfMeasure gWild stJunk = 42 := by decide +kernel
example : pcf gWild 400 2 stJunk ≠ .error .panic :=
  C19_pcf_total_state gWild 400 2 stJunk (by decide +kernel)

/-- a mid-traversal renderer state: root record written (cell 0 = 1, nWritten = 2), union 1 entered -/
def stMid : RenderState := { gen := [(1, 2), (0, 1)], nWritten := 2 }

theorem stMid_inv : RInv gWild stMid := ⟨by decide, by decide +kernel⟩

example : render gWild 600 2 none stMid ≠ .error .panic :=
  C19_render_total_state gWild 600 2 none stMid stMid_inv (by decide +kernel)

/-! ## C09: local lemmas -/

/-- the odd but well-formed name `a..x` (namespace `a.`, short name `x`) -/
def nmOdd : Name := Name.ofFq "a..x"
/-- a name without namespace whose short name is a type keyword -/
def nmKw : Name := Name.ofFq ".string"

example : nmOdd = ⟨"a..x", "x", some "a."⟩ ∧ nmKw = ⟨"string", "string", none⟩ := by decide +kernel

example : ∃ nm nsAttr, readStr (nameMembers (some "a") nmOdd) "name" = .ok (some nm) ∧
      readStr (nameMembers (some "a") nmOdd) "namespace" = .ok nsAttr ∧
      (defKey nm nsAttr (some "a")).toName = nmOdd :=
  C09_def_spelling_roundtrip nmOdd (C09_ofFq_wf _) (some "a")

example : ∃ nm nsAttr, readStr (nameMembers (some "a") nmKw) "name" = .ok (some nm) ∧
      readStr (nameMembers (some "a") nmKw) "namespace" = .ok nsAttr ∧
      (defKey nm nsAttr (some "a")).toName = nmKw :=
  C09_def_spelling_roundtrip nmKw (C09_ofFq_wf _) (some "a")

example : nameMembers (some "a") nmKw = [("namespace", .str ""), ("name", .str "string")] := by
  rfl

example : (refKey (refString none nmKw) none).toName = nmKw :=
  C09_ref_spelling_roundtrip nmKw (C09_ofFq_wf _) none
example : refString none nmKw = ".string" := by decide +kernel
example : (refKey (refString (some "a.") nmOdd) (some "a.")).toName = nmOdd :=
  C09_ref_spelling_roundtrip nmOdd (C09_ofFq_wf _) (some "a.")
example : refString (some "a.") nmOdd = "x" := by decide +kernel

example (fuel : Nat) : rawOfJson (fuel + 1) (.str (refString none nmKw)) = .ok (.ref (refString none nmKw)) :=
  C09_ref_always_reference nmKw (C09_ofFq_wf _) none fuel

example :
    let ms := typeMembers "record" (some (.decimal 2 10)) ++ nameMembers (some "b") nmOdd ++
      [("fields", .arr [.obj [("name", .str "type"), ("type", .str "int")]])]
    member ms "type" = .ok (some (.str "record")) ∧ logicalOfMembers ms = .ok (some (.decimal 2 10)) ∧
      ∃ nm nsAttr, readStr ms "name" = .ok (some nm) ∧ readStr ms "namespace" = .ok nsAttr ∧
        (defKey nm nsAttr (some "b")).toName = nmOdd :=
  C09_object_roundtrip "record" (some (.decimal 2 10)) (some "b") nmOdd _
    (by intro lt h; cases h; exact ⟨by decide, by decide⟩) (C09_ofFq_wf _)
    (by intro p hp; simp at hp; subst hp; decide)

example : member (typeMembers "fixed" (some (.unknown "my-type"))) "type" = .ok (some (.str "fixed")) ∧
      logicalOfMembers (typeMembers "fixed" (some (.unknown "my-type"))) = .ok (some (.unknown "my-type")) :=
  C09_logical_members_roundtrip "fixed" (some (.unknown "my-type"))
    (by intro lt h; cases h; show "my-type" ∉ knownLogicalNames; decide)

example (fuel : Nat) (ns : Option String) (st : RenderState) :
    render gWild (fuel + 1) 7 ns st = .error .custom :=
  C09_union_logical_err gWild fuel 7 ns st [3] .date rfl


example (fuel : Nat) : render gWild (fuel + 1) 1 none stMid = .error .custom :=
  C09_render_reenter gWild fuel 1 none stMid (by decide +kernel) (by decide +kernel)

example (fuel : Nat) :
    pcf gWild (fuel + 1) 5 { written := [0], onPath := [(5, 2), (2, 2)] } = .error .custom :=
  C19_pcf_reenter gWild fuel 5 _ (by decide +kernel) (by decide +kernel)

/-! ## C19 -> C04, C10 freeze protocol (error path) -/

/-- freeze OK gives the C04 hypothesis on the very array the driver deserializes with -/
theorem frozen_no_panic (S : SchemaMut) (kept : Bool) (gfuel : Nat) (F : Schema)
    (h : freeze S kept gfuel = .ok F)
    (ext : DeExt) (cfg : DeConfig) (fuel k : Nat) (node : Node) (hk : F[k]? = some node)
    (depth : Nat) (favor : Bool) (hint : Hint) (hf : fuelBound cfg F hint depth ≤ fuel) (s : RState) :
    F = freezeNodes S ∧ (de ext cfg F fuel node depth favor hint s).1 ≠ .error .panic :=
  ⟨(freeze_ok S kept gfuel F h).1,
   C04_no_panic_root ext cfg F (C19_frozen_usable S kept gfuel F h).1 fuel k node hk depth favor hint hf s⟩

/-- the same chain entirely at the driver's fuels: `freeze` at `graphFuel`, `de` at `deFuel`
    (`C04_no_panic_at_deFuel`, `Theorems/C04fuel.lean`) — no fuel hypothesis left -/
theorem frozen_no_panic_at_driver_fuels (S : SchemaMut) (kept : Bool) (F : Schema)
    (h : freeze S kept (graphFuel S) = .ok F)
    (ext : DeExt) (cfg : DeConfig) (k : Nat) (node : Node) (hk : F[k]? = some node)
    (depth : Nat) (favor : Bool) (hint : Hint) (s : RState) :
    (de ext cfg F (deFuel cfg F hint depth s.rest.length) node depth favor hint s).1 ≠ .error .panic :=
  C04_no_panic_at_deFuel ext cfg F (C19_frozen_usable S kept _ F h).1 k node hk depth favor hint _ s

theorem freeze_of (S : SchemaMut) (fuel : Nat) (t : String) (j : Json) (h0 : S.size ≠ 0)
    (h1 : canonicalForm S fuel = .ok t) (h2 : renderJson S fuel = .ok j)
    (h3 : S.keysInBounds = true) (kept : Bool) : freeze S kept fuel = .ok (freezeNodes S) := by
  unfold freeze
  cases kept <;> simp [h0, h1, h2, h3]

theorem gE_freeze : freeze gE false (graphFuel gE) = .ok (freezeNodes gE) := by
  obtain ⟨_, text, _, h1⟩ := C09_render_has_graph_pcf gE (graphFuel gE) jE gE_wf gE_render
  exact freeze_of gE _ _ _ (by decide) (h1 _ (Nat.le_refl _)) gE_render (by decide +kernel) false

example : (freezeNodes gE).keysInBounds = true ∧ (freezeNodes gE).size = gE.size ∧ 0 < (freezeNodes gE).size :=
  C19_frozen_usable gE false (graphFuel gE) _ gE_freeze

example (ext : DeExt) (s : RState) :
    (de ext {} (freezeNodes gE) (fuelBound {} (freezeNodes gE) .any 64)
      (.record ⟨"ns.Node", "Node", some "ns"⟩
        [("value", 1), ("next", 2), ("color", 3), ("more", 4), ("top", 6), ("top2", 6), ("box", 7)])
      64 false .any s).1 ≠ .error .panic :=
  (frozen_no_panic gE false (graphFuel gE) _ gE_freeze ext {} _ 0 _ (by decide +kernel) 64 false .any (Nat.le_refl _) s).2

example (ext : DeExt) (s : RState) :
    (de ext {} (freezeNodes gE) (deFuel {} (freezeNodes gE) .any 64 s.rest.length)
      (.record ⟨"ns.Node", "Node", some "ns"⟩
        [("value", 1), ("next", 2), ("color", 3), ("more", 4), ("top", 6), ("top2", 6), ("box", 7)])
      64 false .any s).1 ≠ .error .panic :=
  frozen_no_panic_at_driver_fuels gE false _ gE_freeze ext {} 0 _ (by decide +kernel) 64 false .any s

/-! C10 -/

/-- a dangling key at node 2 (second child): phase 1 aborts there -/
def gDangling : SchemaMut := #[
  ⟨.record ⟨"R", "R", none⟩ [("a", 1), ("b", 2)], none⟩,
  ⟨.union [3, 0], none⟩,
  ⟨.record ⟨"Q", "Q", none⟩ [("x", 3), ("y", 7), ("z", 1)], none⟩,
  ⟨.null, none⟩]

example : trace gDangling =
    [.alloc 4, .mkRef 1, .mkRef 2, .write 1 0, .mkRef 3, .mkRef 0, .write 1 1, .mkRef 3, .ret false] := by
  decide +kernel

example : ∃ j, j ≤ gDangling.size ∧
    (trace gDangling).filterMap (fun e => match e with | .write 1 i => some i | _ => none) = List.range j :=
  (C10_error_path_droppable gDangling).1 (by decide +kernel)

example : ∃ j, j < gDangling.size ∧ (trace gDangling).filterMap Avro.Lemmas.Freeze.w1idx = List.range j :=
  C10_error_path_proper_prefix gDangling (by decide) (by decide +kernel)

example : ∀ k, Ev.mkRef k ∈ trace gDangling → k < 4 := C10_refs_in_bounds gDangling

/-! ## C10: freeze protocol (phase 2) and lifetimes -/

def gUnions : SchemaMut := #[
  ⟨.record ⟨"R", "R", none⟩ [("a", 1), ("b", 2), ("c", 1)], none⟩,
  ⟨.union [3, 0], none⟩,
  ⟨.array 4, none⟩,
  ⟨.null, none⟩,
  ⟨.union [3, 2, 5], some .date⟩,
  ⟨.fixed ⟨"F", "F", none⟩ 12, some .duration⟩]

theorem gUnions_trace : trace gUnions =
    [.alloc 6, .mkRef 1, .mkRef 2, .mkRef 1, .write 1 0, .mkRef 3, .mkRef 0, .write 1 1, .mkRef 4,
     .write 1 2, .write 1 3, .mkRef 3, .mkRef 2, .mkRef 5, .write 1 4, .write 1 5,
     .readKind 3, .readKind 0, .write 2 1, .readKind 3, .readKind 2, .readKind 5, .write 2 4,
     .ret true] := by decide +kernel

example : ∃ rest, initialisedBefore (trace gUnions) 20 = List.range gUnions.size ++ rest :=
  C10_reads_after_all_init gUnions 20 2 (by decide +kernel)

example : 0 ∈ initialisedBefore (trace gUnions) 17 :=
  C10_no_read_before_init gUnions 17 0 (by decide +kernel)

example : ∃ vs pre, 4 < gUnions.size ∧ gUnions[4]?.map freezeNode = some (.union vs) ∧
    (trace gUnions).take 22 = pre ++ vs.map Ev.readKind ∧
    (∀ e, pre.getLast? = some e → ∀ j, e ≠ .readKind j) :=
  C10_phase2_writes_only_unions gUnions 22 4 (by decide +kernel)

example : 15 < 16 :=
  C10_no_read_before_last_write1 gUnions 16 15 3 5 (by decide +kernel) (by decide +kernel)

example : (trace gUnions).filterMap (fun e => match e with | .write 1 i => some i | _ => none)
    = List.range gUnions.size :=
  (C10_error_path_droppable gUnions).2 (by decide +kernel)

example : ∀ i, Ev.readKind i ∈ trace gUnions → i < 6 := C10_reads_in_bounds gUnions

example : ∀ (i : Nat) (n : RawNode), gUnions[i]? = some n → ∀ k ∈ (freezeNode n).children, k < gUnions.size :=
  C10_phase1_ok_keys_in_bounds gUnions (by decide +kernel)

/-! lifetimes -/
def hist : List Op :=
  [.newSchema, .cloneArc 0, .dropHandle 0, .useHandle 1, .openReader, .readerSchema 0,
   .readNext 0, .dropReader 0, .useHandle 2, .readNext 0, .dropHandle 1]

example : (run hist).allocs = [{ strong := 0, freed := true }, { strong := 1, freed := false }] ∧
    (run hist).handles = [none, none, some 1] ∧
    (run hist).readers = [{ schema := 1, stateAlive := false, arcHeld := false }] := by
  decide +kernel

example : Inv (run hist) := C10_inv_run hist
example : (∀ (a : Nat) (al : Alloc), (run hist).allocs[a]? = some al →
          al.strong = (run hist).handles.count (some a) +
              (run hist).readers.countP (fun r => r.arcHeld && r.schema == a) ∧
          (al.freed = true ↔ al.strong = 0)) ∧
       (∀ r ∈ (run hist).readers, r.stateAlive = true → r.arcHeld = true) ∧
       (∀ a : Nat, some a ∈ (run hist).handles → a < (run hist).allocs.length) ∧
       (∀ r ∈ (run hist).readers, r.schema < (run hist).allocs.length) :=
  (C10_inv_spelled_out _).mp (C10_inv_run hist)
example : (run hist).useAfterFree = false := C10_no_use_after_free hist

example : ∃ al, (run hist).allocs[1]? = some al ∧ 1 ≤ al.strong ∧ al.freed = false :=
  C10_handle_keeps_schema_alive hist 1 (by decide +kernel)

/-- the user drops every handle it got from the reader; the reader goes on reading -/
def hist2 : List Op :=
  [.openReader, .readerSchema 0, .cloneArc 0, .dropHandle 0, .dropHandle 1, .readNext 0]

example : (run hist2).allocs = [{ strong := 1, freed := false }] := by decide +kernel

example : ∃ al, (run hist2).allocs[0]? = some al ∧ 1 ≤ al.strong ∧ al.freed = false :=
  C10_reader_keeps_schema_alive hist2 ⟨0, true, true⟩ (by decide +kernel) rfl

/-- the model does record a use after free when the invariant is broken (wrong drop order) even on
    a long history -/
example : (List.foldl stepWrongOrder {} hist2).useAfterFree = false := by decide +kernel
example : (List.foldl stepWrongOrder {}
    [.openReader, .readerSchema 0, .dropHandle 0, .dropReader 0]).useAfterFree = true := by decide +kernel

end Avro.NonVacuityE
