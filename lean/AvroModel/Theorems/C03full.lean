import AvroModel.Theorems.C03
import AvroModel.Theorems.C03layouts
import AvroModel.Theorems.C03typed
import AvroModel.Theorems.C03typedAccepts
/-
C03 — decoder conformance, all parts together:
* `Theorems/C03.lean`: the varint level (what the slice and reader varint decoders accept is what
  the specification accepts, up to ten bytes) and prefix-freeness of the canonical encoding;
* `Theorems/C03layouts.lean`: the implementation's deserializer REFINES the specification decoder
  on every legal layout — arrays and maps split into any number of blocks, negative counts with
  byte sizes, non-minimal varints up to ten bytes (`C03_de_refines_spec`) — and is SOUND: whatever
  it accepts, the specification decoder (restricted to 10-byte varints and 16-byte decimals)
  accepts with the same value and the same consumed length (`C03_de_sound`,
  `C03_de_rejects_invalid`), hence an input that is not a valid encoding is an error
  (`C03_invalid_is_err`).  The two documented limits are proved discrepancies
  (`C03_overlong_varint_rejected`, `C03_long_decimal_rejected`); the former third one — a negative
  byte size after a negative block count was accepted — was a defect (D28), repaired, and is now
  `C03_negative_block_size_rejected`.
-/
