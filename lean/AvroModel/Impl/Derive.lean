import AvroModel.Impl.Schema
import AvroModel.Impl.Serde
/-
`serde_avro_derive` (`BuildSchema`, `SchemaBuilder`) and what `#[derive(BuildSchema)]` expands to
(`serde_avro_derive_macros/src/build_schema/{mod,field_types_and_instantiations,type_lookup}.rs`).

A *program* is a list of type declarations in the supported shapes; a type expression refers to
declarations by index, with generic arguments.  `appendSchema` is `T::append_schema(builder)` with
`T` resolved through the trait implementations (primitives, forwarding impls, pointers, `Vec`,
`Option`, maps, `[u8; N]`, and the derive expansion for declared types).  `TypeId::of::<T::TypeLookup>()`
is modelled by a prefix-coded token list (`lookupKey`), equal exactly when the lookup types are
the same type.  The SipHash of a `TypeId` appended to the name of a generic record is a parameter
(`hash`), assumed injective where a theorem needs it.
-/
namespace Avro.Impl.Derive

open Avro Avro.Impl

inductive Ty
  | unit | bool | i8 | i16 | i32 | i64 | u16 | u32 | u64 | usize | f32 | f64
  | string | str | byteVec | byteSlice
  | byteArray (n : Nat)
  | vec (t : Ty) | option (t : Ty) | hashMap (t : Ty) | btreeMap (t : Ty)
  | ptr (t : Ty)                         -- Box, Rc, Arc, RefCell, Cell, &, &mut
  | named (id : Nat) (args : List Ty)
  | param (i : Nat)
  deriving Repr, Inhabited

/-- `#[avro_schema(logical_type = "…", scale = …, precision = …)]` -/
structure Attr where
  logical : Option String := none
  scale : Option Nat := none
  precision : Option Nat := none
  deriving Repr, Inhabited, DecidableEq

structure Field where
  name : String            -- identifier without `r#`
  ty : Ty
  attr : Attr := {}
  deriving Repr, Inhabited

/-- A variant of an enum that maps to a union: `field = none` is the unit variant.
    `serdeName` is its `#[serde(rename = …)]` (only serde looks at it). -/
structure Variant where
  ident : String
  serdeName : String
  field : Option Field
  deriving Repr, Inhabited

inductive Body
  | record (fields : List Field)
  | newtype (field : Field)
  | unitEnum (variants : List String)
  | union (variants : List Variant)
  deriving Repr, Inhabited

structure Decl where
  ident : String
  nameOverride : Option String := none     -- `#[avro_schema(name = …)]`
  ns : Option String := none               -- `#[avro_schema(namespace = "…")]`
  nparams : Nat := 0                       -- type parameters
  modulePath : String                      -- `module_path!().replace("::", ".")`
  body : Body
  deriving Repr, Inhabited

abbrev Prog := Array Decl

/-! ### Substitution of generic arguments -/

mutual
def subst (args : List Ty) : Ty → Ty
  | .vec t => .vec (subst args t)
  | .option t => .option (subst args t)
  | .hashMap t => .hashMap (subst args t)
  | .btreeMap t => .btreeMap (subst args t)
  | .ptr t => .ptr (subst args t)
  | .named id as => .named id (substList args as)
  | .param i => (args[i]?).getD (.param i)
  | t => t
def substList (args : List Ty) : List Ty → List Ty
  | [] => []
  | t :: ts => subst args t :: substList args ts
end

/-! ### Field type selection (`field_type_and_instantiation`, first half) -/

/-- The loop that strips references and `Box`/`Arc`/`Rc`/`RefCell`/`Cell`. -/
def peel : Ty → Ty
  | .ptr t => peel t
  | t => t

def capitalize (w : List Char) : List Char :=
  match w with
  | [] => []
  | c :: rest => c.toUpper :: rest.map Char.toLower

/-- `heck::ToPascalCase` on the spellings the attribute is used with: words separated by
    `-`, `_` or space, or an already Pascal-cased single word per capital. -/
def pascal (s : String) : String :=
  let rec words : List Char → List Char → List (List Char) → List (List Char)
    | [], cur, acc => (if cur.isEmpty then acc else cur.reverse :: acc).reverse
    | c :: rest, cur, acc =>
      if c = '-' ∨ c = '_' ∨ c = ' ' then words rest [] (if cur.isEmpty then acc else cur.reverse :: acc)
      else if c.isUpper && (match cur with | p :: _ => p.isLower | [] => false) then
        words rest [c] (cur.reverse :: acc)
      else words rest (c :: cur) acc
  String.ofList ((words s.toList [] []).flatMap capitalize)

inductive Known
  | decimal | uuid | date | timeMillis | timeMicros | timestampMillis | timestampMicros | duration
  deriving DecidableEq, Repr

def known (p : String) : Option Known :=
  if p = "Decimal" then some .decimal else if p = "Uuid" then some .uuid
  else if p = "Date" then some .date else if p = "TimeMillis" then some .timeMillis
  else if p = "TimeMicros" then some .timeMicros else if p = "TimestampMillis" then some .timestampMillis
  else if p = "TimestampMicros" then some .timestampMicros else if p = "Duration" then some .duration
  else none

def isI64 : Ty → Bool | .i64 => true | _ => false
def isI32 : Ty → Bool | .i32 => true | _ => false
def isString : Ty → Bool | .string => true | _ => false

/-- The type whose `BuildSchema` implementation the field uses: peeled, then replaced for the
    logical types that the specification ties to one Avro type.  (The inference of `Uuid` /
    `Decimal` from the *name* of the field's type is not modelled: the programs considered give
    logical types by attribute.) -/
def chosenTy (f : Field) : Ty :=
  let ty := peel f.ty
  match f.attr.logical with
  | none => ty
  | some l =>
    match known (pascal l) with
    | some .timestampMillis | some .timestampMicros | some .timeMicros => if isI64 ty then ty else .i64
    | some .timeMillis | some .date => if isI32 ty then ty else .i32
    | some .uuid => if isString ty then ty else .string
    | _ => ty

def logicalOf (f : Field) : Option LogicalType :=
  match f.attr.logical with
  | none => none
  | some l =>
    match known (pascal l) with
    | some .decimal => some (.decimal (f.attr.scale.getD 0) (f.attr.precision.getD 0))
    | some .uuid => some .uuid
    | some .date => some .date
    | some .timeMillis => some .timeMillis
    | some .timeMicros => some .timeMicros
    | some .timestampMillis => some .timestampMillis
    | some .timestampMicros => some .timestampMicros
    | some .duration => some .duration
    | none => some (.unknown l)

inductive FieldKind
  | structField (fieldName : String)
  | newtypeStruct
  | newtypeVariant (variant : String)
  deriving Repr

def FieldKind.overridesFixedName : FieldKind → Bool
  | .structField _ => false
  | _ => true

/-- A field whose instantiation is `builder.find_or_build::<ty>()` (`has_direct_lookup`). -/
def isDirect (f : Field) (kind : FieldKind) : Bool :=
  f.attr.logical.isNone &&
    !(kind.overridesFixedName && (match peel f.ty with | .byteArray _ => true | _ => false))

/-! ### `TypeId::of::<T::TypeLookup>()` -/

inductive KTok
  | unit | bool | int | long | float | double | string | bytes
  | byteArray (n : Nat)
  | vec | option | map
  | self (id : Nat)
  | generic (id : Nat) (nfields : Nat)
  deriving DecidableEq, Repr, Inhabited

abbrev Key := List KTok

/-- Fields whose types parameterise the generated `…TypeLookup<T0, T1, …>` struct. -/
def Body.lookupFields : Body → List Field
  | .record fs => fs
  | .newtype f => [f]
  | .unitEnum _ => []
  | .union vs => vs.filterMap (·.field)

mutual
def lookupKey (P : Prog) : Nat → Ty → Option Key
  | 0, _ => none
  | fuel + 1, t =>
    match t with
    | .unit => some [.unit] | .bool => some [.bool]
    | .i8 | .i16 | .i32 | .u16 => some [.int]
    | .i64 | .u32 | .u64 | .usize => some [.long]
    | .f32 => some [.float] | .f64 => some [.double]
    | .string | .str => some [.string]
    | .byteVec | .byteSlice => some [.bytes]
    | .byteArray n => some [.byteArray n]
    | .vec t => (lookupKey P fuel t).map (.vec :: ·)
    | .option t => (lookupKey P fuel t).map (.option :: ·)
    | .hashMap t | .btreeMap t => (lookupKey P fuel t).map (.map :: ·)
    | .ptr t => lookupKey P fuel t
    | .param _ => none
    | .named id args =>
      match P[id]? with
      | none => none
      | some d =>
        match d.body with
        | .unitEnum _ => some [.self id]
        | .newtype f =>
          if isDirect f .newtypeStruct then lookupKey P fuel (subst args (chosenTy f))
          else if d.nparams = 0 then some [.self id]
          else (lookupKeys P fuel [subst args (chosenTy f)]).map (.generic id 1 :: ·)
        | body =>
          if d.nparams = 0 then some [.self id]
          else
            let fs := body.lookupFields
            (lookupKeys P fuel (fs.map fun f => subst args (chosenTy f))).map (.generic id fs.length :: ·)
def lookupKeys (P : Prog) : Nat → List Ty → Option Key
  | _, [] => some []
  | 0, _ :: _ => none
  | fuel + 1, t :: ts =>
    match lookupKey P fuel t, lookupKeys P fuel ts with
    | some a, some b => some (a ++ b)
    | _, _ => none
end

/-! ### The builder -/

structure BState where
  nodes : Array RawNode := #[]
  built : List (Key × Nat) := []      -- `already_built_types`
  deriving Repr, Inhabited

/-- `None` stands for a panic (`assert!`) or the model's fuel running out. -/
abbrev B (α : Type) := BState → Option (α × BState)

def push (n : RawNode) : B Nat := fun s => some (s.nodes.size, { s with nodes := s.nodes.push n })
/-- `SchemaBuilder::reserve` -/
def reserve : B Nat := push { type := .null, logical := none }
def setNode (i : Nat) (n : RawNode) : B Unit := fun s =>
  if i < s.nodes.size then some ((), { s with nodes := s.nodes.set! i n }) else none

def plain (t : RegularType) : RawNode := { type := t, logical := none }

/-- `#type_name_var` (without the generic hash). -/
def typeName (d : Decl) : String :=
  let nameIdent := d.nameOverride.getD d.ident
  match d.ns with
  | none => d.modulePath ++ "." ++ nameIdent
  | some ns => if ns = "" then nameIdent else ns ++ "." ++ nameIdent

/-- `new_name_for_owned_subnode`; `recordTypeName` is the runtime `type_name` of the enclosing
    record (with its generic hash), only used for struct fields without a namespace attribute. -/
def ownedName (d : Decl) (kind : FieldKind) (recordTypeName : String) : String :=
  let nameIdent := d.nameOverride.getD d.ident
  match d.ns with
  | none =>
    match kind with
    | .newtypeStruct => d.modulePath ++ "." ++ nameIdent
    | .structField f => recordTypeName ++ "." ++ f
    | .newtypeVariant v => d.modulePath ++ "." ++ d.ident ++ "." ++ v
  | some ns =>
    let pre := if ns = "" then "" else ns ++ "."
    match kind with
    | .newtypeStruct => pre ++ nameIdent
    | .structField f => recordTypeName ++ "." ++ f      -- (repair of D22: was `pre ++ nameIdent ++ "." ++ f`)
    | .newtypeVariant v => pre ++ d.ident ++ "." ++ v

/-- `RegularType::name_mut` + assignment in `build_logical_type`. -/
def renameNode (t : RegularType) (nm : Name) : RegularType :=
  match t with
  | .record _ fs => .record nm fs
  | .enum _ syms => .enum nm syms
  | .fixed _ sz => .fixed nm sz
  | t => t

mutual

/-- `<T as BuildSchema>::append_schema(builder)`. -/
def appendSchema (P : Prog) (hash : Key → String) : Nat → Ty → B Unit
  | 0, _ => fun _ => none
  | fuel + 1, t =>
    match t with
    | .unit => fun s => (push (plain .null) s).map fun (_, s) => ((), s)
    | .bool => fun s => (push (plain .boolean) s).map fun (_, s) => ((), s)
    | .i8 | .i16 | .i32 | .u16 => fun s => (push (plain .int) s).map fun (_, s) => ((), s)
    | .i64 | .u32 | .u64 | .usize => fun s => (push (plain .long) s).map fun (_, s) => ((), s)
    | .f32 => fun s => (push (plain .float) s).map fun (_, s) => ((), s)
    | .f64 => fun s => (push (plain .double) s).map fun (_, s) => ((), s)
    | .string | .str => fun s => (push (plain .string) s).map fun (_, s) => ((), s)
    | .byteVec | .byteSlice => fun s => (push (plain .bytes) s).map fun (_, s) => ((), s)
    | .byteArray n => fun s =>
      (push (plain (.fixed (Name.ofFq ("u8_array_" ++ toString n)) n)) s).map fun (_, s) => ((), s)
    | .ptr t => appendSchema P hash fuel t
    | .param _ => fun _ => none
    | .vec t => fun s =>
      match reserve s with
      | none => none
      | some (r, s) =>
        match findOrBuild P hash fuel t s with
        | none => none
        | some (k, s) => setNode r (plain (.array k)) s
    | .hashMap t | .btreeMap t => fun s =>
      match reserve s with
      | none => none
      | some (r, s) =>
        match findOrBuild P hash fuel t s with
        | none => none
        | some (k, s) => setNode r (plain (.map k)) s
    | .option t => fun s =>
      match reserve s with
      | none => none
      | some (r, s) =>
        match findOrBuild P hash fuel .unit s with
        | none => none
        | some (a, s) =>
          match findOrBuild P hash fuel t s with
          | none => none
          | some (b, s) => setNode r (plain (.union [a, b])) s
    | .named id args =>
      match P[id]? with
      | none => fun _ => none
      | some d =>
        match d.body with
        | .unitEnum variants => fun s =>
          (push (plain (.enum (Name.ofFq (typeName d)) variants)) s).map fun (_, s) => ((), s)
        | .newtype f =>
          if isDirect f .newtypeStruct then
            -- forwarding: `<#field_type as BuildSchema>::append_schema(builder)`
            appendSchema P hash fuel (subst args (chosenTy f))
          else fun s =>
            let n := s.nodes.size
            match fieldInst P hash fuel d args f .newtypeStruct "" s with
            | none => none
            | some (k, s) => if k = n then some ((), s) else none      -- `assert_eq!`
        | .record fields => fun s =>
          match reserve s with
          | none => none
          | some (r, s) =>
            let base := typeName d
            let tn :=
              if d.nparams = 0 then some base
              else (lookupKey P fuel (.named id args)).map fun k => base ++ "_" ++ hash k
            match tn with
            | none => none
            | some tn =>
              match recordFields P hash fuel d args tn fields s with
              | none => none
              | some (fs, s) => setNode r (plain (.record (Name.ofFq tn) fs)) s
        | .union variants => fun s =>
          match reserve s with
          | none => none
          | some (r, s) =>
            match unionVariants P hash fuel d args variants s with
            | none => none
            | some (ks, s) => setNode r (plain (.union ks)) s

/-- `SchemaBuilder::find_or_build::<T>()` -/
def findOrBuild (P : Prog) (hash : Key → String) : Nat → Ty → B Nat
  | 0, _ => fun _ => none
  | fuel + 1, t => fun s =>
    match lookupKey P (fuel + 1) t with
    | none => none
    | some key =>
      match s.built.lookup key with
      | some idx => some (idx, s)
      | none =>
        let idx := s.nodes.size
        match appendSchema P hash fuel t { s with built := (key, idx) :: s.built } with
        | none => none
        | some (_, s) => if s.nodes.size > idx then some (idx, s) else none   -- `assert!`

/-- The instantiation expression of one field (second half of `field_type_and_instantiation`). -/
def fieldInst (P : Prog) (hash : Key → String) : Nat → Decl → List Ty → Field → FieldKind → String → B Nat
  | 0, _, _, _, _, _ => fun _ => none
  | fuel + 1, d, args, f, kind, recordTypeName =>
    let ty := subst args (chosenTy f)
    match logicalOf f with
    | none =>
      -- (the macro looks at the field's type as written: a type parameter instantiated with
      -- `[u8; N]` is not an array to it)
      match kind.overridesFixedName, chosenTy f with
      | true, .byteArray n =>
        push (plain (.fixed (Name.ofFq (ownedName d kind recordTypeName)) n))
      | _, _ => findOrBuild P hash fuel ty
    | some lt => fun s =>
      -- `build_logical_type(lt, |b| b.build_duplicate::<ty>(), || name_override)`
      let key := s.nodes.size
      match appendSchema P hash fuel ty s with
      | none => none
      | some (_, s) =>
        if s.nodes.size > key then
          match s.nodes[key]? with
          | none => none
          | some node =>
            let node' : RawNode :=
              { type := renameNode node.type (Name.ofFq (ownedName d kind recordTypeName)), logical := some lt }
            some (key, { s with nodes := s.nodes.set! key node' })
        else none

def recordFields (P : Prog) (hash : Key → String) : Nat → Decl → List Ty → String → List Field →
    B (List (String × Nat))
  | _, _, _, _, [] => fun s => some ([], s)
  | 0, _, _, _, _ :: _ => fun _ => none
  | fuel + 1, d, args, tn, f :: rest => fun s =>
    match fieldInst P hash fuel d args f (.structField f.name) tn s with
    | none => none
    | some (k, s) =>
      match recordFields P hash fuel d args tn rest s with
      | none => none
      | some (fs, s) => some ((f.name, k) :: fs, s)

def unionVariants (P : Prog) (hash : Key → String) : Nat → Decl → List Ty → List Variant →
    B (List Nat)
  | _, _, _, [] => fun s => some ([], s)
  | 0, _, _, _ :: _ => fun _ => none
  | fuel + 1, d, args, v :: rest => fun s =>
    let r := match v.field with
      | none => findOrBuild P hash fuel .unit s
      | some f => fieldInst P hash fuel d args f (.newtypeVariant v.ident) "" s
    match r with
    | none => none
    | some (k, s) =>
      match unionVariants P hash fuel d args rest s with
      | none => none
      | some (ks, s) => some (k :: ks, s)

end

/-- `T::schema_mut()`: a fresh builder, `builder.find_or_build::<T>()` (which registers the root
    type too, repair of D23), `SchemaMut::from_nodes`. -/
def schemaMut (P : Prog) (hash : Key → String) (fuel : Nat) (t : Ty) : Option SchemaMut :=
  (findOrBuild P hash fuel t {}).map fun (_, s) => s.nodes

/-- `schema_mut()` before the repair of D23: the root was appended without being registered, so a
    recursive reference to it built the type a second time. -/
def schemaMutOld (P : Prog) (hash : Key → String) (fuel : Nat) (t : Ty) : Option SchemaMut :=
  (appendSchema P hash fuel t {}).map fun (_, s) => s.nodes

/-! ### What serde's derived `Serialize` presents for a value of a type

This is `serde_derive`'s behaviour (a parameter of the verification, validated on every generated
value by the correspondence check): the set of serializer-call trees a value of type `t` makes.
Byte vectors and arrays are serialized through `serde_bytes`; maps have string keys; a variant of
an enum that maps to a union carries its `#[serde(rename)]`. -/

def intTyOf : Ty → Option IntTy
  | .i8 => some .i8 | .i16 => some .i16 | .i32 => some .i32 | .i64 => some .i64
  | .u16 => some .u16 | .u32 => some .u32 | .u64 => some .u64 | .usize => some .u64
  | _ => none

/-- Unsigned integers must fit the Avro type they map to (`u32`/`u64`/`usize` → `long`). -/
def fitsAvro (t : Ty) (v : Int) : Bool :=
  match t with
  | .u64 | .usize => decide (v < (2 : Int) ^ 63)
  | _ => true

def isStrKey : SV → Bool | .str _ => true | _ => false

def hasShape (P : Prog) : Nat → Ty → SV → Bool
  | 0, _, _ => false
  | fuel + 1, t, sv =>
    match t with
    | .unit => (match sv with | .unit => true | _ => false)
    | .bool => (match sv with | .bool _ => true | _ => false)
    | .i8 | .i16 | .i32 | .i64 | .u16 | .u32 | .u64 | .usize =>
      (match sv with
        | .int ty v => intTyOf t = some ty && ty.inRange v && fitsAvro t v
        | _ => false)
    | .f32 => (match sv with | .f32 _ => true | _ => false)
    | .f64 => (match sv with | .f64 _ => true | _ => false)
    | .string | .str => (match sv with | .str _ => true | _ => false)
    | .byteVec | .byteSlice => (match sv with | .bytes _ => true | _ => false)
    | .byteArray n => (match sv with | .bytes b => b.length = n | _ => false)
    | .vec t =>
      (match sv with
        | .seq (some len) elems => len = elems.length && elems.all fun e => hasShape P fuel t e
        | _ => false)
    | .option t =>
      (match sv with
        | .none => true
        | .some x => hasShape P fuel t x
        | _ => false)
    | .hashMap t | .btreeMap t =>
      (match sv with
        | .map (some len) entries =>
          len = entries.length && entries.all fun (k, v) => isStrKey k && hasShape P fuel t v
        | _ => false)
    | .ptr t => hasShape P fuel t sv
    | .param _ => false
    | .named id args =>
      match P[id]? with
      | none => false
      | some d =>
        match d.body with
        | .record fields =>
          (match sv with
            | .struct name fs =>
              name = d.ident && fs.length = fields.length &&
                (fields.zip fs).all fun (f, (n, v)) => n = f.name && hasShape P fuel (subst args f.ty) v
            | _ => false)
        | .newtype f =>
          (match sv with
            | .newtypeStruct name x => name = d.ident && hasShape P fuel (subst args f.ty) x
            | _ => false)
        | .unitEnum vs =>
          (match sv with
            | .unitVariant name idx v => name = d.ident && vs[idx]? = some v
            | _ => false)
        | .union vs =>
          (match sv with
            | .unitVariant name idx v =>
              name = d.ident &&
                (match vs[idx]? with
                  | some var => var.field.isNone && var.serdeName = v
                  | none => false)
            | .newtypeVariant name idx v x =>
              name = d.ident &&
                (match vs[idx]? with
                  | some var =>
                    (match var.field with
                      | some f => var.serdeName = v && hasShape P fuel (subst args f.ty) x
                      | none => false)
                  | none => false)
            | _ => false)

end Avro.Impl.Derive
