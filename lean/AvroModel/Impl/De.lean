import AvroModel.Impl.Varint
import AvroModel.Impl.Schema
import AvroModel.Impl.Ser
/-
Model of the datum deserializer (`de/**`): `deserialize_any` and the hinted entry points, the
block reader (negative counts, `ignored` fast path, `max_seq_size`), the depth budget, union /
enum / option access, decimals, durations — over the two read back-ends (`SliceRead`, and
`ReaderRead` on a `BufRead` whose refills follow a *chunk schedule*).
DESIGN.md Appendix A.1, A.2, A.5 and section 4.1 (`Hint`, `Out`).
-/
namespace Avro.Impl

open Avro

/-! ### The target: which `deserialize_*` the target calls, what the visitor received -/

mutual
/-- A tree of deserializer requests (what a `Deserialize` impl asks for). -/
inductive Hint
  | any | u64 | i64 | u128 | i128 | f64 | str | bytes | identifier | ignored
  | option (h : Hint)
  | seq (elem : Hint)
  | tuple (n : Nat) (elem : Hint)
  | map (key : Hint) (val : Hint)
  | struct (fields : List (String × Hint))
  | enum (variants : List (String × VariantHint))
inductive VariantHint
  | unit
  | newtype (h : Hint)
  | tuple (n : Nat) (elem : Hint)
  | struct (fields : List (String × Hint))
end

instance : Inhabited Hint := ⟨.any⟩
instance : Inhabited VariantHint := ⟨.unit⟩

/-- The tree of visitor calls actually received. -/
inductive Out
  | unit
  | bool (b : Bool)
  | i32 (i : Int) | i64 (i : Int) | i128 (i : Int)
  | u32 (n : Nat) | u64 (n : Nat) | u128 (n : Nat)
  | f32 (bits : BitVec 32) | f64 (bits : BitVec 64)
  | str (s : String) (borrowed : Bool)
  | bytes (b : Bytes) (borrowed : Bool)
  | none
  | some (o : Out)
  | seq (items : List Out)
  | map (entries : List (Out × Out))
  | variant (name : Out) (payload : Out)
  deriving Repr, Inhabited

/-- Error classes: `DeError::io_error().is_some()` is `io`. `panic` marks `expect/unwrap` sites. -/
inductive DeErr | custom | io | panic
  deriving DecidableEq, Repr, Inhabited

/-! ### Read back-ends -/

/-- Both back-ends in one state. For the slice, `rest` is the slice. For the reader, `rest` is
    everything not yet consumed from the underlying `BufRead`, of which the first `avail` bytes
    are in its buffer; `sched` gives the sizes of the coming refills (then `lastChunk` forever). -/
structure RState where
  isSlice : Bool := true
  rest : Bytes := []
  avail : Nat := 0
  sched : List Nat := []
  lastChunk : Nat := 1
  maxAlloc : Nat := 536870912
  scratch : Nat := 0
  /-- `io::Take` limit around the back-end while reading a big-decimal (`none` = no `Take`) -/
  limit : Option Nat := none
  deriving Repr, Inhabited

abbrev DeM (α : Type) := RState → Except DeErr α × RState

instance : Monad DeM where
  pure a := fun s => (.ok a, s)
  bind m f := fun s =>
    match m s with
    | (.ok a, s') => f a s'
    | (.error e, s') => (.error e, s')

def DeM.fail {α} (e : DeErr) : DeM α := fun s => (.error e, s)

/-- `BufRead::fill_buf`: the slice back-end exposes everything; the reader refills when its
    buffer is empty. Returns the buffered bytes. -/
def fillBuf : DeM Bytes := fun s =>
  if s.isSlice then (.ok s.rest, s)
  else if s.avail > 0 then (.ok (s.rest.take s.avail), s)
  else
    let (c, sched') := match s.sched with
      | [] => (s.lastChunk, [])
      | c :: r => (c, r)
    let a := min (max c 1) s.rest.length
    (.ok (s.rest.take a), { s with avail := a, sched := sched' })

def consume (n : Nat) : DeM Unit := fun s =>
  (.ok (), { s with rest := s.rest.drop n, avail := s.avail - n })

/-- `Read::read` into a buffer of `k` bytes (through the `BufRead`, and through `io::Take` when
    one is in place). -/
def readSome (k : Nat) : DeM Bytes := fun s =>
  let k' := match s.limit with
    | none => k
    | some l => min k l
  if k' = 0 then (.ok [], s) else
  match fillBuf s with
  | (.error e, s') => (.error e, s')
  | (.ok buf, s') =>
    let m := min k' buf.length
    match consume m s' with
    | (_, s'') =>
      (.ok (buf.take m), { s'' with limit := s''.limit.map (· - m) })

/-- `Read::read_exact` (default implementation): loops `read`; end of input is an I/O error.
    Fuel = number of bytes wanted (each round reads at least one byte). -/
def readExactR : Nat → Nat → Bytes → DeM Bytes
  | _, 0, acc => pure acc
  | 0, _ + 1, _ => DeM.fail .io
  | fuel + 1, k + 1, acc => do
    let got ← readSome (k + 1)
    if got.isEmpty then DeM.fail .io
    else readExactR fuel (k + 1 - got.length) (acc ++ got)

def readExact (k : Nat) : DeM Bytes := readExactR k k []

/-- The byte-wise fallback of `ReaderRead::read_varint` (after the repair of D9): read one byte
    at a time into a 10-byte buffer until a byte has its high bit clear or the buffer is full,
    then decode with `decode_var`. End of input is an I/O error. -/
def varintBytewise (t : VarTy) : Nat → Bytes → DeM Int
  | 0, buf =>
    match decodeVar t buf with
    | some (v, _) => pure v
    | none => DeM.fail .custom
  | fuel + 1, buf => do
    let got ← readSome 1
    match got with
    | [] => DeM.fail .io
    | b :: _ =>
      let buf := buf ++ [b]
      if b.toNat &&& 0x80 = 0 ∨ buf.length = 10 then
        match decodeVar t buf with
        | some (v, _) => pure v
        | none => DeM.fail .custom
      else varintBytewise t fuel buf

/-- `VarIntReader::read_varint` of `integer-encoding` (byte by byte with `VarIntProcessor`,
    DESIGN.md A.1), still used on the `io::Take` inside a big-decimal. `buf` is the processor's
    buffer. -/
def varintProcessor (t : VarTy) : Nat → Bytes → DeM Int
  | 0, buf =>
    match decodeVar t buf with
    | some (v, _) => pure v
    | none => DeM.fail .io
  | fuel + 1, buf =>
    -- `while !p.finished()`
    if buf ≠ [] ∧ (buf.getLast?.getD 0).toNat &&& 0x80 = 0 then
      match decodeVar t buf with
      | some (v, _) => pure v
      | none => DeM.fail .io
    else do
      let got ← readSome 1
      match got with
      | [] =>
        if buf = [] then DeM.fail .io
        else match decodeVar t buf with
          | some (v, _) => pure v
          | none => DeM.fail .io
      | b :: _ =>
        if buf.length ≥ t.maxSize then DeM.fail .io   -- `push`: "Unterminated varint"
        else varintProcessor t fuel (buf ++ [b])

/-- `Read::read_varint` of the back-end. -/
def readVarint (t : VarTy) : DeM Int := fun s =>
  if s.isSlice then
    match decodeVar t s.rest with
    | none => (.error .custom, s)
    | some (v, k) => (.ok v, { s with rest := s.rest.drop k })
  else
    match fillBuf s with
    | (.error e, s') => (.error e, s')
    | (.ok buf, s') =>
      match decodeVar t buf with
      | some (v, k) => consume k s' |>.map (fun _ => .ok v) id
      | none => varintBytewise t 10 [] s'

/-- What `read_slice` hands to the visitor: the bytes and whether they are borrowed from the
    input (`visit_borrowed`). -/
def readSlice (n : Nat) : DeM (Bytes × Bool) := fun s =>
  if s.isSlice then
    if n > s.rest.length then (.error .custom, s)
    else (.ok (s.rest.take n, true), { s with rest := s.rest.drop n })
  else
    match fillBuf s with
    | (.error e, s') => (.error e, s')
    | (.ok buf, s') =>
      if n ≤ buf.length then
        match consume n s' with
        | (_, s'') => (.ok (buf.take n, false), s'')
      else if n > s'.maxAlloc then (.error .custom, s')
      else
        let s' := { s' with scratch := max s'.scratch n }
        match readExactR n n [] s' with
        | (.ok b, s'') => (.ok (b, false), s'')
        | (.error e, s'') => (.error e, s'')

/-- `Read::skip_bytes`. -/
def skipBytes (n : Nat) : DeM Unit := fun s =>
  if s.isSlice then
    if n ≤ s.rest.length then (.ok (), { s with rest := s.rest.drop n })
    else (.error .custom, s)
  else
    -- `io::copy(take(n), sink)`: consumes `min n remaining`; a short count is a custom error
    let m := min n s.rest.length
    -- the schedule advances as refills happen; model it by repeated reads
    let rec go : Nat → Nat → RState → RState
      | 0, _, st => st
      | _, 0, st => st
      | fuel + 1, left + 1, st =>
        match readSome (left + 1) st with
        | (.ok got, st') => if got.isEmpty then st' else go fuel (left + 1 - got.length) st'
        | (_, st') => st'
    let s' := go m m s
    if m = n then (.ok (), s') else (.error .custom, s')

/-! ### Configuration and parameters -/

structure DeConfig where
  maxSeqSize : Nat := 1000000000
  allowedDepth : Nat := 64
  deriving Repr, Inhabited

/-- `rust_decimal` on the read side: `try_from_i128_with_scale`, `to_f64`, `to_string`. -/
structure DeExt where
  /-- `(unscaled, scale) ↦ Decimal::to_string()` if `try_from_i128_with_scale` accepts -/
  decToString : Int → Nat → Option String
  /-- `(unscaled, scale) ↦ to_f64()` bits (`none`: conversion failed, falls back to the string) -/
  decToF64 : Int → Nat → Option (BitVec 64)

/-! ### Pieces -/

def decDepth (d : Nat) : DeM Nat :=
  match d with
  | 0 => DeM.fail .custom
  | d + 1 => pure d

/-- `read_len`: i64 varint → usize. -/
def readLen : DeM Nat := do
  let l ← readVarint .i64
  if l < 0 then DeM.fail .custom else pure l.toNat

/-- `read_discriminant` -/
def readDiscriminant : DeM Nat := readLen

def bytesToStr? (b : Bytes) : Option String := String.fromUTF8? (ByteArray.mk b.toArray)

/-- `read_length_delimited` with `StringVisitor` / `BytesVisitor`. -/
def readString : DeM Out := do
  let n ← readLen
  let (b, borrowed) ← readSlice n
  match bytesToStr? b with
  | some s => pure (.str s borrowed)
  | none => DeM.fail .custom

def readBytes : DeM Out := do
  let n ← readLen
  let (b, borrowed) ← readSlice n
  pure (.bytes b borrowed)

def readBool : DeM Out := do
  let (b, _) ← readSlice 1
  match b with
  | [0] => pure (.bool false)
  | [1] => pure (.bool true)
  | _ => DeM.fail .custom

/-- `read_block_len`: the loop that jumps over size-prefixed blocks when ignoring.
    Fuel: each iteration consumes at least two bytes of input. -/
def readBlockLen (ignored : Bool) : Nat → DeM (Option Nat)
  | 0 => DeM.fail .custom
  | fuel + 1 => do
    let len ← readVarint .i64
    if len < 0 then
      if ignored then do
        let sz ← readVarint .i64
        if sz < 0 then DeM.fail .custom
        else do
          skipBytes sz.toNat
          readBlockLen ignored fuel
      else do
        -- `wrapping_neg` of the u64 bit pattern: i64::MIN ↦ 2^63
        let res := (-len).toNat
        -- the byte size is not used, but it must not be negative (repair of D28)
        let sz ← readVarint .i64
        if sz < 0 then DeM.fail .custom
        else pure (if res = 0 then none else some res)
    else pure (if len = 0 then none else some len.toNat)

structure BlockState where
  current : Nat := 0
  nRead : Nat := 0
  deriving Repr, Inhabited

/-- `BlockReader::has_more`. `usize` saturating add is modelled on `Nat` (no overflow below 2^64
    for inputs that exist). -/
def hasMore (cfg : DeConfig) (ignored : Bool) (bs : BlockState) : DeM (Bool × BlockState) := fun s =>
  match bs.current with
  | c + 1 => (.ok (true, { bs with current := c }), s)
  | 0 =>
    match readBlockLen ignored (s.rest.length + 2) s with
    | (.error e, s') => (.error e, s')
    | (.ok none, s') => (.ok (false, bs), s')
    | (.ok (some l), s') =>
      let n := bs.nRead + l
      if n > cfg.maxSeqSize then (.error .custom, s')
      else (.ok (true, { current := l - 1, nRead := n }), s')

/-- Sign-extended big-endian two's complement of at most 16 bytes → i128. -/
def i128OfBE (b : Bytes) : Int :=
  match b with
  | [] => 0
  | b0 :: _ =>
    let u : Int := beToNat b
    if b0.toNat &&& 0x80 ≠ 0 then u - (2 : Int) ^ (8 * b.length) else u

def setLimit (l : Option Nat) : DeM Unit := fun s => (.ok (), { s with limit := l })
def getLimit : DeM (Option Nat) := fun s => (.ok s.limit, s)
/-- run `m` and drop the `Take` afterwards, whatever the outcome -/
def withLimitCleared {α} (m : DeM α) : DeM α := fun s =>
  match m s with
  | (r, s') => (r, { s' with limit := none })

inductive DecHint | str | u64 | i64 | u128 | i128 | f64
  deriving DecidableEq, Repr

inductive DecMode
  | big
  | regular (scale : Nat) (repr : DecimalRepr)

/-- `read_decimal`. -/
def readDecimal (ext : DeExt) (mode : DecMode) (hint : DecHint) : DeM Out := do
  let (unscaled, scale) ← (match mode with
    | .regular scale .bytes => do
      let size ← readLen
      if size > 16 then DeM.fail .custom else
      let b ← readExact size
      pure (i128OfBE b, scale)
    | .regular scale (.fixed _ size) => do
      if size > 16 then DeM.fail .custom else
      let b ← readExact size
      pure (i128OfBE b, scale)
    | .big => do
      let bytesLen ← readLen
      -- `(&mut state.reader).take(bytes_len)`
      setLimit (some bytesLen)
      let r ← withLimitCleared (do
        let l ← varintProcessor .i64 12 []
        if l < 0 then DeM.fail .custom else
        let size := l.toNat
        if size > 16 then DeM.fail .custom else
        let b ← readExact size
        let sc ← varintProcessor .i64 12 []
        if sc < 0 ∨ sc ≥ 4294967296 then DeM.fail .custom else
        let left ← getLimit
        if left ≠ some 0 then DeM.fail .custom else
        pure (i128OfBE b, sc.toNat))
      pure r : DeM (Int × Nat))
  if scale = 0 then
    match hint with
    | .u64 =>
      if 0 ≤ unscaled ∧ unscaled < 2 ^ 64 then return .u64 unscaled.toNat
      else if unscaled < 0 then return .i128 unscaled
      else pure ()
    | .i64 =>
      if -(2 : Int) ^ 63 ≤ unscaled ∧ unscaled < 2 ^ 63 then return .i64 unscaled
      else return .i128 unscaled
    | .u128 =>
      if 0 ≤ unscaled then return .u128 unscaled.toNat else return .i128 unscaled
    | .i128 => return .i128 unscaled
    | _ => pure ()
  match ext.decToString unscaled scale with
  | none => DeM.fail .custom
  | some s =>
    if hint = .f64 then
      match ext.decToF64 unscaled scale with
      | some bits => pure (.f64 bits)
      | none => pure (.str s false)
    else pure (.str s false)


/-! ### Sub-hints a visitor hands to its children -/

def lookupHint (name : String) : List (String × Hint) → Option Hint
  | [] => none
  | (k, h) :: rest => if k = name then some h else lookupHint name rest

def Hint.elem : Hint → Hint
  | .seq e => e
  | .tuple _ e => e
  | .ignored => .ignored
  | _ => .any

def Hint.key : Hint → Hint
  | .map k _ => k
  | .struct _ => .identifier
  | .ignored => .ignored
  | _ => .any

/-- hint for the value under key `name` (unknown struct fields are ignored, as serde derive does) -/
def Hint.valFor (h : Hint) (name : Option String) : Hint :=
  match h with
  | .map _ v => v
  | .struct fs =>
    match name with
    | some n => (lookupHint n fs).getD .ignored
    | none => .ignored
  | .ignored => .ignored
  | _ => .any

def Hint.inner : Hint → Hint
  | .option h => h
  | .ignored => .ignored
  | _ => .any

/-- how many elements a tuple visitor pulls -/
def Hint.maxItems : Hint → Option Nat
  | .tuple n _ => some n
  | _ => none

/-- `SchemaTypeNameDeserializer`: the name a union branch is offered under to an enum target. -/
def Node.typeName : Node → String
  | .null => "Null" | .boolean => "Boolean" | .int => "Int" | .long => "Long"
  | .float => "Float" | .double => "Double" | .bytes => "Bytes" | .string => "String"
  | .array _ => "Array" | .map _ => "Map" | .union _ => "Union"
  | .record nm _ => nm.fq | .enum nm _ => nm.fq | .fixed nm _ => nm.fq
  | .decimal _ _ (.fixed nm _) => nm.fq
  | .decimal _ _ .bytes => "Decimal"
  | .bigDecimal => "BigDecimal" | .uuid => "Uuid" | .date => "Date"
  | .timeMillis => "TimeMillis" | .timeMicros => "TimeMicros"
  | .timestampMillis => "TimestampMillis" | .timestampMicros => "TimestampMicros"
  | .duration => "Duration"

/-- A key / identifier as seen by a seed with hint `kh` when the deserializer offers the string
    `name` (not borrowed) — `StrDeserializer`, `DurationFieldNameDeserializer`. -/
def offerName (kh : Hint) (name : String) (idx : Nat) (durationKey : Bool) : Out :=
  match kh with
  | .ignored => .unit
  | .u64 => if durationKey then .u64 idx else .str name false
  | _ => .str name false

def lookupVariant (name : String) : List (String × VariantHint) → Option VariantHint
  | [] => none
  | (k, v) :: rest => if k = name then some v else lookupVariant name rest

/-- Which variant of an enum target a received identifier selects (by name, or by index). -/
def selectVariant (variants : List (String × VariantHint)) (ident : Out) : Option VariantHint :=
  match ident with
  | .str s _ => lookupVariant s variants
  | .bytes b _ => match bytesToStr? b with
    | some s => lookupVariant s variants
    | none => none
  | .u64 i => (variants[i]?).map (·.2)
  | _ => none

def isNullNode : Node → Bool
  | .null => true
  | _ => false

def isIgnoredHint : Hint → Bool
  | .ignored => true
  | _ => false

def durationOut (b : Bytes) (h : Hint) : Out :=
  let entry (name : String) (i : Nat) : Out × Out :=
    let k := offerName h.key name i true
    let vh := h.valFor (match k with | .str s _ => some s | _ => none)
    (k, if isIgnoredHint vh then .unit else .u32 (leToNat ((b.drop (4 * i)).take 4)))
  .map [entry "months" 0, entry "days" 1, entry "milliseconds" 2]

def durationSeqOut (b : Bytes) (eh : Hint) (maxItems : Option Nat) : Out :=
  let v (i : Nat) : Out := if isIgnoredHint eh then .unit else .u32 (leToNat ((b.drop (4 * i)).take 4))
  .seq (([v 0, v 1, v 2] : List Out).take (maxItems.getD 3))

mutual

/-- `seed.deserialize(DatumDeserializer { schema_node, allowed_depth, .. })` for a target that
    behaves as `h`. `favor` is the `FavorSchemaTypeNameIfEnumHint` wrapper. -/
def de (ext : DeExt) (cfg : DeConfig) (S : Schema) :
    Nat → Node → Nat → Bool → Hint → DeM Out
  | 0, _, _, _, _ => DeM.fail .panic   -- out of model fuel (never reached with the bound of C04)
  | fuel + 1, node, depth, favor, h =>
    match h with
    | .ignored => deIgnored ext cfg S fuel node depth
    | .u64 =>
      match node with
      | .enum _ _ => do
        let d ← readVarint .i64
        if d < 0 then DeM.fail .custom else pure (.u64 d.toNat)
      | .decimal scale _ repr => readDecimal ext (.regular scale repr) .u64
      | .bigDecimal => readDecimal ext .big .u64
      | _ => deAny ext cfg S fuel node depth h
    | .i64 =>
      match node with
      | .long => do pure (.i64 (← readVarint .i64))
      | .decimal scale _ repr => readDecimal ext (.regular scale repr) .i64
      | .bigDecimal => readDecimal ext .big .i64
      | _ => deAny ext cfg S fuel node depth h
    | .u128 =>
      match node with
      | .decimal scale _ repr => readDecimal ext (.regular scale repr) .u128
      | .bigDecimal => readDecimal ext .big .u128
      | _ => deAny ext cfg S fuel node depth h
    | .i128 =>
      match node with
      | .decimal scale _ repr => readDecimal ext (.regular scale repr) .i128
      | .bigDecimal => readDecimal ext .big .i128
      | _ => deAny ext cfg S fuel node depth h
    | .f64 =>
      match node with
      | .double => do
        let b ← readExact 8
        pure (.f64 (BitVec.ofNat 64 (leToNat b)))
      | .decimal scale _ repr => readDecimal ext (.regular scale repr) .f64
      | .bigDecimal => readDecimal ext .big .f64
      | _ => deAny ext cfg S fuel node depth h
    | .str =>
      match node with
      | .string | .bytes => readString
      | .fixed _ size => do
        let (b, borrowed) ← readSlice size
        match bytesToStr? b with
        | some s => pure (.str s borrowed)
        | none => DeM.fail .custom
      | _ => deAny ext cfg S fuel node depth h
    | .bytes =>
      match node with
      | .bytes => readBytes
      | .duration => do
        let (b, borrowed) ← readSlice 12
        pure (.bytes b borrowed)
      | _ => deAny ext cfg S fuel node depth h
    | .option inner =>
      match node with
      | .null => pure .none
      | .union vs => do
        let d ← readDiscriminant
        match vs[d]? with
        | none => DeM.fail .custom
        | some k =>
          match S[k]? with
          | none => DeM.fail .panic
          | some .null => pure .none
          | some variant =>
            let otherIsNull : Bool := vs.length == 2 &&
              (match vs[1 - d]? with
                | some k' => isNullNode (S[k']?.getD .int)
                | none => false)
            do
            let depth' ← decDepth depth
            let o ← de ext cfg S fuel variant depth' (!otherIsNull) inner
            pure (.some o)
      | _ => do
        let o ← de ext cfg S fuel node depth favor inner
        pure (.some o)
    | .seq _ =>
      match node with
      | .duration => do
        let b ← readExact 12
        pure (durationSeqOut b h.elem none)
      | _ => deAny ext cfg S fuel node depth h
    | .tuple n _ =>
      match node with
      | .duration =>
        if n = 3 then do
          let b ← readExact 12
          pure (durationSeqOut b h.elem (some 3))
        else deAny ext cfg S fuel node depth h
      | _ => deAny ext cfg S fuel node depth h
    | .map _ _ => deAny ext cfg S fuel node depth h
    | .struct _ => deAny ext cfg S fuel node depth h
    | .identifier =>
      match node with
      | .int => do
        let v ← readVarint .i32
        if v < 0 then DeM.fail .custom else pure (.u64 v.toNat)
      | .long => do
        let v ← readVarint .i64
        if v < 0 then DeM.fail .custom else pure (.u64 v.toNat)
      | _ => deAny ext cfg S fuel node depth h
    | .enum variants =>
      if favor then deTypeNameEnum ext cfg S fuel node depth variants
      else
      match node with
      | .union vs => do
        let d ← readDiscriminant
        match vs[d]? with
        | none => DeM.fail .custom
        | some k =>
          match S[k]? with
          | none => DeM.fail .panic
          | some variant => do
            let depth' ← decDepth depth
            deTypeNameEnum ext cfg S fuel variant depth' variants
      | .int | .long | .bytes | .string | .enum _ _ | .fixed _ _ => do
        -- `UnitVariantEnumAccess`: the datum itself is the variant identifier
        let depth' ← decDepth depth
        let ident ← de ext cfg S fuel node depth' false .identifier
        match selectVariant variants ident with
        | some .unit => pure (.variant ident .unit)
        | some _ => DeM.fail .custom     -- `UnitOnly`: newtype / tuple / struct variants are refused
        | none => DeM.fail .custom       -- target: unknown variant
      | _ => do
        let depth' ← decDepth depth
        deTypeNameEnum ext cfg S fuel node depth' variants
    | .any => deAny ext cfg S fuel node depth h

/-- `visit_enum(SchemaTypeNameEnumAccess { variant_schema, allowed_depth })` for an enum target. -/
def deTypeNameEnum (ext : DeExt) (cfg : DeConfig) (S : Schema) :
    Nat → Node → Nat → List (String × VariantHint) → DeM Out
  | 0, _, _, _ => DeM.fail .panic
  | fuel + 1, node, depth, variants =>
    let ident : Out := .str node.typeName false
    match selectVariant variants ident with
    | none => DeM.fail .custom
    | some .unit => do
      let _ ← deIgnored ext cfg S fuel node depth
      pure (.variant ident .unit)
    | some (.newtype h) => do
      let o ← de ext cfg S fuel node depth false h
      pure (.variant ident o)
    | some (.tuple n e) => do
      let o ← de ext cfg S fuel node depth false (.tuple n e)
      pure (.variant ident o)
    | some (.struct fs) => do
      let o ← de ext cfg S fuel node depth false (.struct fs)
      pure (.variant ident o)

/-- `deserialize_any`; `h` only supplies the sub-hints the visitor gives to children. -/
def deAny (ext : DeExt) (cfg : DeConfig) (S : Schema) : Nat → Node → Nat → Hint → DeM Out
  | 0, _, _, _ => DeM.fail .panic
  | fuel + 1, node, depth, h =>
    match node with
    | .null => pure .unit
    | .boolean => readBool
    | .int | .date | .timeMillis => do pure (.i32 (← readVarint .i32))
    | .long | .timeMicros | .timestampMillis | .timestampMicros => do pure (.i64 (← readVarint .i64))
    | .float => do
      let b ← readExact 4
      pure (.f32 (BitVec.ofNat 32 (leToNat b)))
    | .double => do
      let b ← readExact 8
      pure (.f64 (BitVec.ofNat 64 (leToNat b)))
    | .bytes => readBytes
    | .string | .uuid => readString
    | .array k =>
      match S[k]? with
      | none => DeM.fail .panic
      | some item => do
        let depth' ← decDepth depth
        let items ← deSeqLoop ext cfg S fuel item depth' false h.elem h.maxItems {} []
        pure (.seq items)
    | .map k =>
      match S[k]? with
      | none => DeM.fail .panic
      | some item => do
        let depth' ← decDepth depth
        let entries ← deMapLoop ext cfg S fuel item depth' false h {} []
        pure (.map entries)
    | .union vs => do
      let d ← readDiscriminant
      match vs[d]? with
      | none => DeM.fail .custom
      | some k =>
        match S[k]? with
        | none => DeM.fail .panic
        | some variant => do
          let depth' ← decDepth depth
          deAny ext cfg S fuel variant depth' h
    | .record _ fields => do
      let depth' ← decDepth depth
      let entries ← deRecordFields ext cfg S fuel fields depth' h []
      pure (.map entries)
    | .enum _ syms => do
      let d ← readDiscriminant
      match syms[d]? with
      | none => DeM.fail .custom
      | some sym => pure (.str sym false)
    | .fixed _ size => do
      let (b, borrowed) ← readSlice size
      pure (.bytes b borrowed)
    | .decimal scale _ repr => readDecimal ext (.regular scale repr) .str
    | .bigDecimal => readDecimal ext .big .str
    | .duration => do
      let b ← readExact 12
      pure (durationOut b h)

/-- `deserialize_ignored_any` with serde's `IgnoredAny` as the target. -/
def deIgnored (ext : DeExt) (cfg : DeConfig) (S : Schema) : Nat → Node → Nat → DeM Out
  | 0, _, _ => DeM.fail .panic
  | fuel + 1, node, depth =>
    match node with
    | .string => do
      let n ← readLen
      let _ ← readSlice n     -- `BytesVisitor`: no UTF-8 validation
      pure .unit
    | .array k =>
      match S[k]? with
      | none => DeM.fail .panic
      | some item => do
        let depth' ← decDepth depth
        let _ ← deSeqLoop ext cfg S fuel item depth' true .ignored none {} []
        pure .unit
    | .map k =>
      match S[k]? with
      | none => DeM.fail .panic
      | some item => do
        let depth' ← decDepth depth
        let _ ← deMapLoop ext cfg S fuel item depth' true .ignored {} []
        pure .unit
    | .int => do let _ ← readVarint .u32; pure .unit
    | .long | .enum _ _ => do let _ ← readVarint .u64; pure .unit
    | .duration => do let _ ← readExact 12; pure .unit
    | _ => do
      let _ ← deAny ext cfg S fuel node depth .ignored
      pure .unit

/-- `ArraySeqAccess::next_element_seed` until `None` (or until a tuple target stops asking). -/
def deSeqLoop (ext : DeExt) (cfg : DeConfig) (S : Schema) :
    Nat → Node → Nat → Bool → Hint → Option Nat → BlockState → List Out → DeM (List Out)
  | 0, _, _, _, _, _, _, _ => DeM.fail .panic
  | fuel + 1, item, depth, ignored, eh, maxItems, bs, acc =>
    if maxItems = some 0 then do
      -- `ArraySeqAccess::visit`: a visitor that takes a fixed number of elements does not ask for
      -- the one after its last; the array must end here (its end marker is read now)
      let (more, _) ← hasMore cfg ignored bs
      if more then DeM.fail .custom else pure acc.reverse
    else do
    let (more, bs') ← hasMore cfg ignored bs
    if !more then pure acc.reverse else do
    let o ← de ext cfg S fuel item depth false eh
    deSeqLoop ext cfg S fuel item depth ignored eh (maxItems.map (· - 1)) bs' (o :: acc)

/-- `MapMapAccess`: key through `StringDeserializer`, value through the datum deserializer. -/
def deMapLoop (ext : DeExt) (cfg : DeConfig) (S : Schema) :
    Nat → Node → Nat → Bool → Hint → BlockState → List (Out × Out) → DeM (List (Out × Out))
  | 0, _, _, _, _, _, _ => DeM.fail .panic
  | fuel + 1, item, depth, ignored, h, bs, acc => do
    let (more, bs') ← hasMore cfg ignored bs
    if !more then pure acc.reverse else do
    let n ← readLen
    let (kb, borrowed) ← readSlice n
    let (kOut, kName) ← (match h.key with
      | .ignored => pure (Out.unit, none)           -- bytes visitor, no UTF-8 check
      | _ =>
        match bytesToStr? kb with
        | some s => pure (Out.str s borrowed, some s)
        | none => DeM.fail .custom : DeM (Out × Option String))
    let v ← de ext cfg S fuel item depth false (h.valFor kName)
    deMapLoop ext cfg S fuel item depth ignored h bs' ((kOut, v) :: acc)

/-- `RecordMapAccess`. -/
def deRecordFields (ext : DeExt) (cfg : DeConfig) (S : Schema) :
    Nat → List (String × Nat) → Nat → Hint → List (Out × Out) → DeM (List (Out × Out))
  | _, [], _, _, acc => pure acc.reverse
  | 0, _ :: _, _, _, _ => DeM.fail .panic
  | fuel + 1, (name, k) :: rest, depth, h, acc =>
    match S[k]? with
    | none => DeM.fail .panic
    | some fnode => do
      let kOut := offerName h.key name 0 false
      let v ← de ext cfg S fuel fnode depth false (h.valFor (some name))
      deRecordFields ext cfg S fuel rest depth h ((kOut, v) :: acc)

end

end Avro.Impl
