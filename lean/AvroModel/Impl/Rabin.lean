import AvroModel.Basic.Bytes
import AvroModel.Generated.RabinTable
/-
`schema/safe/rabin.rs`: the table-driven checksum, over the table and seed re-extracted from
the running code (`Generated/RabinTable.lean`).
-/
namespace Avro.Impl
open Avro Avro.Generated

/-- `self.result = (self.result >> 8) ^ FP_TABLE[((self.result ^ b as u64) & 0xFF) as usize]` -/
def rabinStep (s : BitVec 64) (b : UInt8) : BitVec 64 :=
  (s >>> 8) ^^^ rabinTable[((s ^^^ BitVec.ofNat 64 b.toNat) &&& 0xFF#64).toNat]!

/-- `Rabin::default()` then `write(data)`. -/
def rabinHash (bs : Bytes) : BitVec 64 := bs.foldl rabinStep rabinEmpty

/-- `finish`: `result.to_le_bytes()`. -/
def rabinFingerprint (bs : Bytes) : Bytes := leBytes 8 (rabinHash bs).toNat

end Avro.Impl
