import AvroModel.Impl.De
import AvroModel.Impl.Ser
/-
Object container files: the writer state machine (`writer/mod.rs`), the vectored-write loop
(`vectored_write_polyfill.rs`) against a sink that answers each write call according to a
schedule, and the reader state machine (`reader/mod.rs`, `reader/decompression.rs`,
`de/read/take.rs`).  DESIGN.md Appendix A.6, A.7.

The compression codec is a parameter: `compress : Bytes → Bytes` on the write side,
`decompress : Bytes → Option Bytes` on the read side (law L1 `decompress (compress x) = some x`
is a hypothesis of the theorems, never an axiom).
-/
namespace Avro.Impl.Ocf

open Avro Avro.Impl

/-! ### Sinks -/

/-- How the sink answers one `write` / `write_vectored` call. -/
inductive SinkResp
  | accept (k : Nat)      -- takes up to `k` of the bytes offered (`k = 0`: returns `Ok(0)`)
  | interrupted
  | hardError
  deriving DecidableEq, Repr, Inhabited

structure Sink where
  data : Bytes := []
  /-- answers to the coming calls; once exhausted the sink accepts everything -/
  sched : List SinkResp := []
  /-- number of write calls made so far (plain and vectored) -/
  calls : Nat := 0
  deriving Repr, Inhabited

inductive WErr | io | custom | panic
  deriving DecidableEq, Repr, Inhabited

/-- one `write_vectored(bufs)` (or `write(buf)` with a single buffer): bytes are taken from the
    buffers in order. Returns the number of bytes accepted. -/
def Sink.writeCall (s : Sink) (bufs : List Bytes) : Except WErr Nat × Sink :=
  let offered := bufs.flatten
  let s' := { s with calls := s.calls + 1 }
  match s.sched with
  | [] => (.ok offered.length, { s' with data := s.data ++ offered })
  | r :: rest =>
    let s' := { s' with sched := rest }
    match r with
    | .accept k =>
      let m := min k offered.length
      (.ok m, { s' with data := s.data ++ offered.take m })
    | .interrupted => (.error .custom, s')   -- distinguished below by the caller
    | .hardError => (.error .io, s')

/-- `IoSlice::advance_slices`: drop whole buffers while they fit in `n`, then advance the first
    remaining one. -/
def advanceSlices : List Bytes → Nat → List Bytes
  | [], _ => []
  | b :: rest, n =>
    if b.length ≤ n then advanceSlices rest (n - b.length)
    else b.drop n :: rest

/-- `write_all_vectored_inner`. Fuel: every iteration either consumes a schedule entry or
    writes everything. -/
def writeAllVectored : Nat → List Bytes → Sink → Except WErr Unit × Sink
  | 0, _, s => (.error .panic, s)
  | fuel + 1, bufs, s =>
    let bufs := advanceSlices bufs 0
    if bufs.isEmpty then (.ok (), s)
    else
      match s.sched with
      | .interrupted :: rest =>
        writeAllVectored fuel bufs { s with sched := rest, calls := s.calls + 1 }
      | _ =>
        match s.writeCall bufs with
        | (.error e, s') => (.error e, s')
        | (.ok 0, s') => (.error .io, s')     -- `WriteZero`
        | (.ok n, s') => writeAllVectored fuel (advanceSlices bufs n) s'

/-- `Write::write_all` (std): same loop with one buffer and plain `write` calls. -/
def writeAllPlain (fuel : Nat) (buf : Bytes) (s : Sink) : Except WErr Unit × Sink :=
  writeAllVectored fuel [buf] s

def sinkFuel (s : Sink) (bufs : List Bytes) : Nat := s.sched.length + bufs.flatten.length + 2

/-! ### Writer -/

structure Codec where
  name : String
  compress : Bytes → Bytes
  /-- `compressed_buffer()` is `None` for the null codec: the serializer's buffer is used -/
  isNull : Bool

structure WState where
  buf : Bytes := []                 -- `serializer_state.writer()`
  n : Nat := 0                      -- `n_elements_in_block`
  pending : Option Bytes := none    -- `block_header_buffer[..block_header_size]`
  compressed : Bytes := []          -- `compression_codec_state` output of the pending block
  approx : Nat := 65536
  sync : Bytes := []
  sink : Sink := {}
  /-- `writer: Option<W>` taken by `into_inner` -/
  taken : Bool := false
  deriving Repr, Inhabited

def blockData (c : Codec) (w : WState) : Bytes := if c.isNull then w.buf else w.compressed

/-- `WriterInner::finish_block` -/
def innerFinishBlock (c : Codec) (w : WState) : Except WErr Unit × WState :=
  if w.n > 0 then
    if w.pending.isSome then (.error .panic, w)
    else
      let comp := if c.isNull then [] else c.compress w.buf
      let w := { w with compressed := comp }
      let header := encodeVarI64 w.n ++ encodeVarI64 (blockData c w).length
      (.ok (), { w with pending := some header, n := 0 })
  else (.ok (), w)

/-- `Writer::flush_finished_block` -/
def flushFinishedBlock (c : Codec) (w : WState) : Except WErr Unit × WState :=
  match w.pending with
  | none => (.ok (), w)
  | some header =>
    if w.taken then (.error .panic, w) else
    let bufs := [header, blockData c w, w.sync]
    match writeAllVectored (sinkFuel w.sink bufs) bufs w.sink with
    | (.error e, sink') => (.error e, { w with sink := sink' })
    | (.ok _, sink') => (.ok (), { w with sink := sink', pending := none, buf := [] })

/-- `Writer::finish_block` -/
def finishBlock (c : Codec) (w : WState) : Except WErr Unit × WState :=
  match innerFinishBlock c w with
  | (.error e, w') => (.error e, w')
  | (.ok _, w') => flushFinishedBlock c w'

/-- The part shared by `serialize` and `push_serialized`: `add` appends to the buffer and bumps
    the count, or fails leaving the buffer as it was. -/
def withValue (c : Codec) (w : WState) (add : Option (Bytes × Nat)) : Except WErr Unit × WState :=
  match flushFinishedBlock c w with
  | (.error e, w) => (.error e, w)
  | (.ok _, w) =>
    let r := if w.buf.length ≥ w.approx then finishBlock c w else (.ok (), w)
    match r with
    | (.error e, w) => (.error e, w)
    | (.ok _, w) =>
      match add with
      | none => (.error .custom, w)        -- the value does not fit the schema: buffer truncated back
      | some (bytes, k) =>
        let w := { w with buf := w.buf ++ bytes, n := w.n + k }
        let r := if w.buf.length ≥ w.approx then innerFinishBlock c w else (.ok (), w)
        match r with
        | (.error e, w) => (.error e, w)
        | (.ok _, w) => flushFinishedBlock c w

inductive WOp
  | value (datum : Option Bytes)          -- `serialize`: the datum bytes, or a schema mismatch
  | push (bytes : Bytes) (n : Nat)        -- `push_serialized`
  | finishBlock
  | intoInner
  | drop
  deriving Repr, Inhabited

/-- One writer call. `debugAssertions` is `cfg!(debug_assertions)` (Drop `expect`s the flush). -/
def wstep (c : Codec) (debugAssertions : Bool) (w : WState) : WOp → Except WErr Unit × WState
  | .value d => withValue c w (d.map fun b => (b, 1))
  | .push b n => withValue c w (some (b, n))
  | .finishBlock => finishBlock c w
  | .intoInner =>
    -- after the repair of D10: the sink is taken whatever the outcome, `Drop` does nothing more
    match finishBlock c w with
    | (r, w') => (r, { w' with taken := true })
  | .drop =>
    if w.taken then (.ok (), w) else
    match finishBlock c w with
    | (.ok _, w') => (.ok (), w')
    | (.error .panic, w') => (.error .panic, w')
    | (.error _, w') => if debugAssertions then (.error .panic, w') else (.ok (), w')

/-- The header written by `build_with_user_metadata`: magic, the metadata map (every entry its own
    one-element block because the derived `Serialize` of a struct with a flattened field calls
    `serialize_map(None)`), the sync marker — in one `write_all`. -/
def headerBytes (schemaJson : Bytes) (codecName : Bytes) (userMeta : List (Bytes × Bytes)) (sync : Bytes) : Bytes :=
  let entry (k v : Bytes) : Bytes :=
    encodeVarI64 1 ++ encodeVarI64 k.length ++ k ++ encodeVarI64 v.length ++ v
  [0x4F, 0x62, 0x6A, 0x01]
    ++ entry "avro.schema".toUTF8.data.toList schemaJson
    ++ entry "avro.codec".toUTF8.data.toList codecName
    ++ (userMeta.map fun (k, v) => entry k v).flatten
    ++ encodeVarI64 0
    ++ sync

/-! ### Reader -/

inductive RdState
  | notInBlock
  | inBlock (n : Nat)
  | broken
  deriving DecidableEq, Repr, Inhabited

/-- The reader over the file bytes. `outer` is the source back-end when not in a block. In a
    block, `blk` is the back-end the datum deserializer runs on — a *view* of the block's bytes
    (null codec) or the decompressed block —, `after` the source bytes following the block, and
    `blkLimit` what `Take::limit()` would report (declared size minus bytes consumed).
    Modelling note: on a reader back-end with the null codec the source's buffer is tracked
    exactly across blocks (`srcAfterBlock`); with a compressed codec the end of a block is treated
    as a refill point of the source (the decoders' own buffering is not modelled); results do not
    depend on refill points unless the caller lowered the allocation cap (C11). -/
structure Reader where
  st : RdState := .notInBlock
  pretendEof : Bool := false
  sync : Bytes := []
  outer : RState := {}
  blk : RState := {}
  after : Bytes := []
  blkLimit : Nat := 0
  deriving Repr, Inhabited

structure Decomp where
  isNull : Bool
  /-- whole-block decompression; `none`: the data is not a valid compressed stream -/
  decompress : Bytes → Option Bytes
  /-- snappy: 4 trailing CRC bytes, checked on construction -/
  isSnappy : Bool := false
  crc32 : Bytes → Bytes := fun _ => []

inductive RdErr | custom | io | panic
  deriving DecidableEq, Repr, Inhabited

def ofDe : DeErr → RdErr
  | .custom => .custom | .io => .io | .panic => .panic

/-- A `ReaderRead` over decompressed bytes (a `Cursor`, or a `BufReader` with `chunk`-sized refills). -/
def plainReader (plain : Bytes) (chunk : Nat) : RState :=
  { isSlice := false, rest := plain, lastChunk := chunk }

/-- The source's buffer after a block of `rem` more bytes has been read through `io::Take`:
    `Take::fill_buf` hands out at most `limit` bytes of the source's buffer and does not touch the
    source once the limit is 0; the source refills (one schedule entry each time) exactly when its
    buffer is empty and the block is not exhausted. `afterLen` bytes follow the block. Returns the
    number of bytes still buffered after the block and the remaining schedule. -/
def srcAfterBlockGo (lastChunk afterLen : Nat) : Nat → Nat → List Nat → Nat × List Nat
  | 0, _, sched => (0, sched)
  | fuel + 1, rem, sched =>
    if rem = 0 then (0, sched) else
    match sched with
    | [] =>
      let a := min (max lastChunk 1) (rem + afterLen)
      if a ≥ rem then (a - rem, []) else srcAfterBlockGo lastChunk afterLen fuel (rem - a) []
    | c :: sched' =>
      let a := min (max c 1) (rem + afterLen)
      if a ≥ rem then (a - rem, sched') else srcAfterBlockGo lastChunk afterLen fuel (rem - a) sched'

/-- `o`: the source when the block is entered (`o.avail` bytes buffered), `size` the block's. -/
def srcAfterBlock (o : RState) (size afterLen : Nat) : Nat × List Nat :=
  if o.avail ≥ size then (min (o.avail - size) afterLen, o.sched)   -- (`avail ≤ rest.length`: the `min` is the identity)
  else srcAfterBlockGo o.lastChunk afterLen (size - o.avail) (size - o.avail) o.sched

/-- Leave the current block (`into_source_reader_and_config`), check the sync marker. -/
def leaveBlock (d : Decomp) (r : Reader) : Except RdErr Unit × Reader :=
  let r := { r with st := .broken }
  -- the block must have been consumed entirely: the slice view is empty / `Take::limit() = 0` /
  -- the decompressed stream is exhausted (D11, D17 repaired)
  let leftover : Bool :=
    if d.isNull then (if r.outer.isSlice then r.blk.rest ≠ [] else r.blkLimit > 0)
    else r.blk.rest ≠ []
  if leftover then (.error .custom, r) else
  let outer : RState :=
    if d.isNull ∧ ¬ r.outer.isSlice then
      -- `into_left_after_take`: the source comes back with whatever it has buffered beyond the
      -- block and with the schedule entries the block did not use (`r.outer` is the source as it
      -- was when the block was entered)
      let src := srcAfterBlock r.outer (r.outer.rest.length - r.after.length) r.after.length
      { r.blk with rest := r.after, avail := src.1, sched := src.2, limit := none }
    else { r.outer with rest := r.after, avail := 0 }
  match readExact 16 outer with
  | (.error e, outer') => (.error (ofDe e), { r with outer := outer' })
  | (.ok marker, outer') =>
    if marker ≠ r.sync then (.error .custom, { r with outer := outer' })
    else (.ok (), { r with st := .notInBlock, outer := outer' })

/-- Open the next block: counts, codec state. -/
def enterBlock (d : Decomp) (r : Reader) : Except RdErr Unit × Reader :=
  let r := { r with st := .broken }
  match readVarint .i64 r.outer with
  | (.error e, o) => (.error (ofDe e), { r with outer := o })
  | (.ok cnt, o) =>
    if cnt < 0 then (.error .custom, { r with outer := o }) else
    match readVarint .i64 o with
    | (.error e, o) => (.error (ofDe e), { r with outer := o })
    | (.ok size, o) =>
      if size < 0 then (.error .custom, { r with outer := o }) else
      let size := size.toNat
      let r := { r with outer := o, after := o.rest.drop size, blkLimit := size }
      if d.isNull then
        if o.isSlice ∧ size > o.rest.length then
          -- `SliceRead::take`: the whole block must be present
          (.error .custom, r)
        else
          (.ok (), { r with st := RdState.inBlock cnt.toNat,
                            blk := { o with rest := o.rest.take size, avail := min o.avail size } })
      else
        -- compressed: the decompressor is modelled by whole-block decompression of the `size`
        -- bytes; a block cut short is an I/O error of the decompressor (slice: rejected up front)
        if size > o.rest.length then
          (if o.isSlice then (.error .custom, r) else (.error .io, r))
        else
          let raw := o.rest.take size
          if d.isSnappy then
            (if size < 4 then (.error .custom, r) else
              (match d.decompress (raw.take (size - 4)) with
              | none => (.error .custom, r)
              | some plain =>
                if d.crc32 plain ≠ raw.drop (size - 4) then (.error .custom, r)
                else (.ok (), { r with st := RdState.inBlock cnt.toNat, blk := plainReader plain (plain.length + 1) })))
          else
            (match d.decompress raw with
            | none => (.error .io, r)
            | some plain =>
              (.ok (), { r with st := RdState.inBlock cnt.toNat,
                                blk := plainReader plain 8192 }))

/-- `deserialize_next_inner`, with the datum deserializer as a parameter (`datum` runs on the
    block's back-end). Fuel bounds the number of block transitions. -/
def nextInner {α} (d : Decomp) (datum : RState → Except DeErr α × RState) :
    Nat → Reader → Except RdErr (Option α) × Reader
  | 0, r => (.error .panic, r)
  | fuel + 1, r =>
    match r.st with
    | .broken => (.error .custom, r)
    | .notInBlock =>
      match fillBuf r.outer with
      | (.error e, o) => (.error (ofDe e), { r with outer := o })
      | (.ok buf, o) =>
        if buf.isEmpty then (.ok none, { r with outer := o })
        else
          match enterBlock d { r with outer := o } with
          | (.error e, r') => (.error e, r')
          | (.ok _, r') => nextInner d datum fuel r'
    | .inBlock 0 =>
      match leaveBlock d r with
      | (.error e, r') => (.error e, r')
      | (.ok _, r') => nextInner d datum fuel r'
    | .inBlock (n + 1) =>
      let r := { r with st := .inBlock n }
      match datum r.blk with
      | (.error e, blk') =>
        (.error (ofDe e), { r with blk := blk', blkLimit := r.blkLimit - (r.blk.rest.length - blk'.rest.length) })
      | (.ok a, blk') =>
        (.ok (some a), { r with blk := blk', blkLimit := r.blkLimit - (r.blk.rest.length - blk'.rest.length) })

/-- `deserialize_seed_next`: an I/O error or a broken reader is reported once, then end of
    stream. -/
def next {α} (d : Decomp) (datum : RState → Except DeErr α × RState) (r : Reader) :
    Except RdErr (Option α) × Reader :=
  if r.pretendEof then (.ok none, r)
  else
    match nextInner d datum (r.outer.rest.length + 4) r with
    | (.error e, r') =>
      if e = .io ∨ r'.st = .broken then (.error e, { r' with pretendEof := true })
      else (.error e, r')
    | ok => ok

end Avro.Impl.Ocf
