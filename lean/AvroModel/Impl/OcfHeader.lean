import AvroModel.Impl.Ocf
import AvroModel.Impl.DecimalLib
/-
`Reader::new_and_metadata`: magic, the metadata map deserialized into
`Metadata { avro.schema: String, avro.codec: CompressionCodec (optional since the repair of D15),
flatten: user metadata }` through the datum deserializer on a `map<bytes>` schema with
`max_seq_size = 1000`, then the 16-byte sync marker.
-/
namespace Avro.Impl.Ocf
open Avro Avro.Impl

inductive InitErr | notAvro | header | schema
  deriving DecidableEq, Repr, Inhabited

structure Header where
  schemaJson : Bytes
  codec : String
  userMeta : List (Bytes × Bytes)
  sync : Bytes
  deriving Repr, Inhabited

def metaSchema : Schema := #[.map 1, .bytes]

def knownCodecs : List String := ["null", "deflate", "bzip2", "snappy", "xz", "zstandard"]

def outBytes : Out → Option Bytes
  | .bytes b _ => some b
  | .str s _ => some s.toUTF8.data.toList
  | _ => none

/-- Returns the header and the back-end positioned at the first block. -/
def readHeader (src : RState) : Except InitErr Header × RState :=
  match readExact 4 src with
  | (.error _, s) => (.error .header, s)
  | (.ok m, s) =>
    if m ≠ [0x4F, 0x62, 0x6A, 0x01] then (.error .notAvro, s) else
    let cfg : DeConfig := { maxSeqSize := 1000, allowedDepth := 64 }
    -- keys are visited as strings (UTF-8 checked), values as bytes
    match deAny deExtModel cfg metaSchema (s.rest.length * 4 + 4096) (.map 1) 64 (.map .any .bytes) s with
    | (.error _, s') => (.error .header, s')
    | (.ok (.map entries), s') =>
      let kv : List (Bytes × Bytes) := entries.filterMap fun (k, v) =>
        match outBytes k, outBytes v with
        | some kb, some vb => some (kb, vb)
        | _, _ => none
      let key (n : String) : Bytes := n.toUTF8.data.toList
      let schemas := kv.filter (·.1 = key "avro.schema")
      let codecs := kv.filter (·.1 = key "avro.codec")
      let user := kv.filter fun e => e.1 ≠ key "avro.schema" ∧ e.1 ≠ key "avro.codec"
      -- duplicate or missing `avro.schema`, duplicate `avro.codec` (repeated USER keys are not rejected:
      -- they are handed to the caller's metadata type in file order, as serde's `flatten` does)
      if schemas.length ≠ 1 ∨ codecs.length > 1 then (.error .header, s') else
      match schemas, bytesToStr? (schemas.headD ([], [])).2 with
      | _, none => (.error .header, s')
      | _, some _ =>
        let codecName : Option String :=
          match codecs with
          | [] => some "null"
          | (_, v) :: _ => (bytesToStr? v).bind fun n => if knownCodecs.contains n then some n else none
        match codecName with
        | none => (.error .header, s')
        | some cn =>
          match readExact 16 s' with
          | (.error _, s'') => (.error .header, s'')
          | (.ok sync, s'') =>
            (.ok { schemaJson := (schemas.headD ([], [])).2, codec := cn, userMeta := user, sync := sync }, s'')
    | (.ok _, s') => (.error .header, s')

end Avro.Impl.Ocf
