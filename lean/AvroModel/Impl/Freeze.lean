import AvroModel.Impl.SchemaRender
import AvroModel.Impl.UnionLookup
/-
The initialisation protocol of the self-referential `Schema` (`TryFrom<SchemaMut> for Schema`,
`schema/self_referential.rs`) over an abstract heap: ONE allocation of `n` cells created full of
valid placeholder nodes (`SchemaNode::Null`); phase 1 overwrites cell `i` with its node, whose
child references are addresses `base + k` that are *computed but not dereferenced*; phase 2
initialises the lookup table of every union cell by reading the *kinds* (never the lookup tables)
of the referenced cells.  The model records every heap access as an event; the theorems of
`Theorems/C10.lean` are statements about all event traces.
-/
namespace Avro.Impl.Freeze

open Avro Avro.Impl

inductive Ev
  | alloc (n : Nat)                 -- `(0..n).map(|_| Null).collect()`
  | mkRef (k : Nat)                 -- `storage_start_ptr.add(k)` wrapped in a `NodeRef` (no dereference)
  | write (phase : Nat) (i : Nat)   -- `*ptr.add(i) = …` (phase 1) / write of cell i's own table (phase 2)
  | readKind (i : Nat)              -- phase 2: `schema_node.as_ref()` to match on the node kind
  | ret (ok : Bool)
  deriving DecidableEq, Repr, Inhabited

/-- phase 1 for node `i`: the `key_to_ref` calls in order; the first out-of-bounds key aborts. -/
def phase1Node (len : Nat) (i : Nat) (children : List Nat) : List Ev × Bool :=
  let rec go : List Nat → List Ev → List Ev × Bool
    | [], acc => (acc ++ [.write 1 i], true)
    | k :: rest, acc => if k < len then go rest (acc ++ [.mkRef k]) else (acc, false)
  go children []

def phase1 (S : SchemaMut) : Nat → List Nat → List Ev × Bool
  | _, [] => ([], true)
  | len, i :: rest =>
    match phase1Node len i ((S[i]?.map fun n => (freezeNode n).children).getD []) with
    | (evs, false) => (evs, false)
    | (evs, true) =>
      match phase1 S len rest with
      | (evs', ok) => (evs ++ evs', ok)

/-- phase 2: for each union cell, read the kind of each branch, then write the cell's own table. -/
def phase2 (S : SchemaMut) : List Nat → List Ev
  | [] => []
  | i :: rest =>
    (match S[i]?.map freezeNode with
      | some (.union vs) => vs.map Ev.readKind ++ [.write 2 i]
      | _ => []) ++ phase2 S rest

/-- The whole conversion once fingerprint and JSON have been computed (they only read the safe
    `SchemaMut`). -/
def trace (S : SchemaMut) : List Ev :=
  let n := S.size
  if n = 0 then [.ret false] else
  let idxs := List.range n
  match phase1 S n idxs with
  | (evs, false) => [.alloc n] ++ evs ++ [.ret false]
  | (evs, true) => [.alloc n] ++ evs ++ phase2 S idxs ++ [.ret true]

/-- cells written in phase 1 before position `p` of a trace -/
def initialisedBefore (evs : List Ev) (p : Nat) : List Nat :=
  (evs.take p).filterMap fun e => match e with | .write 1 i => some i | _ => none

end Avro.Impl.Freeze
