import AvroModel.Basic.Bytes
/-
Ownership histories of the public API around the self-referential schema
(`object_container_file_encoding/reader/mod.rs`: `Reader { reader_state (fake 'static references
into the schema), …, schema: Arc<Schema> }`, fields dropped in declaration order;
`Schema` values moved, shared through `Arc`, used by (de)serializers that borrow them).

The model tracks, for every schema allocation, its strong count and whether it has been freed,
and for every container reader whether its state (which points into a schema) is still alive.
A *use* of a pointer into a freed allocation is recorded as `useAfterFree`.
-/
namespace Avro.Impl.Lifetimes

abbrev AllocId := Nat
abbrev HandleId := Nat
abbrev ReaderId := Nat

structure Alloc where
  strong : Nat          -- `Arc` strong count (1 for a plainly owned `Schema`)
  freed : Bool := false
  deriving Repr, Inhabited, DecidableEq

structure RdHandle where
  schema : AllocId      -- the `Arc<Schema>` field
  stateAlive : Bool     -- `reader_state` (holds `NodeRef<'static>` into `schema`)
  arcHeld : Bool        -- the reader's own strong reference not yet released
  deriving Repr, Inhabited, DecidableEq

structure St where
  allocs : List Alloc := []
  /-- user-held handles (owned `Schema` / `Arc<Schema>` clones): which allocation each points to,
      `none` once dropped -/
  handles : List (Option AllocId) := []
  readers : List RdHandle := []
  useAfterFree : Bool := false
  deriving Repr, Inhabited

inductive Op
  | newSchema                    -- parse / build + freeze: a fresh allocation, one handle
  | cloneArc (h : HandleId)
  | dropHandle (h : HandleId)
  | useHandle (h : HandleId)     -- serialize / deserialize (borrowed or owned) through a handle
  | openReader                   -- `Reader::new`: parses the header's schema into its own `Arc`
  | readerSchema (r : ReaderId)  -- `reader.schema().clone()`: a new user handle on the reader's schema
  | readNext (r : ReaderId)      -- dereferences the reader's `NodeRef`s
  | dropReader (r : ReaderId)    -- fields in order: `reader_state` first, `schema` (the Arc) last
  deriving Repr, Inhabited

def release (allocs : List Alloc) (a : AllocId) : List Alloc :=
  match allocs[a]? with
  | none => allocs
  | some al =>
    let s := al.strong - 1
    allocs.set a { strong := s, freed := al.freed || s == 0 }

def retain (allocs : List Alloc) (a : AllocId) : List Alloc :=
  match allocs[a]? with
  | none => allocs
  | some al => allocs.set a { al with strong := al.strong + 1 }

def isFreed (allocs : List Alloc) (a : AllocId) : Bool :=
  match allocs[a]? with
  | some al => al.freed
  | none => true

def step (s : St) : Op → St
  | .newSchema =>
    { s with allocs := s.allocs ++ [{ strong := 1 }], handles := s.handles ++ [some s.allocs.length] }
  | .cloneArc h =>
    match s.handles[h]? with
    | some (some a) => { s with allocs := retain s.allocs a, handles := s.handles ++ [some a] }
    | _ => s      -- a dropped handle cannot be named in safe code
  | .dropHandle h =>
    match s.handles[h]? with
    | some (some a) => { s with allocs := release s.allocs a, handles := s.handles.set h none }
    | _ => s
  | .useHandle h =>
    match s.handles[h]? with
    | some (some a) => { s with useAfterFree := s.useAfterFree || isFreed s.allocs a }
    | _ => s
  | .openReader =>
    let a := s.allocs.length
    { s with allocs := s.allocs ++ [{ strong := 1 }],
             readers := s.readers ++ [{ schema := a, stateAlive := true, arcHeld := true }] }
  | .readerSchema r =>
    match s.readers[r]? with
    | some rd =>
      if rd.arcHeld then { s with allocs := retain s.allocs rd.schema, handles := s.handles ++ [some rd.schema] }
      else s
    | none => s
  | .readNext r =>
    match s.readers[r]? with
    | some rd =>
      if rd.stateAlive then { s with useAfterFree := s.useAfterFree || isFreed s.allocs rd.schema }
      else s
    | none => s
  | .dropReader r =>
    match s.readers[r]? with
    | some rd =>
      if rd.arcHeld then
        -- `reader_state` is dropped first (its pointers die), then the `Arc`
        let rd1 := { rd with stateAlive := false }
        { s with readers := s.readers.set r { rd1 with arcHeld := false },
                 allocs := release s.allocs rd.schema }
      else s
    | none => s

def run (ops : List Op) : St := ops.foldl step {}

/-- The variant the field order protects against: the `Arc` released before the state. -/
def stepWrongOrder (s : St) : Op → St
  | .dropReader r =>
    match s.readers[r]? with
    | some rd =>
      if rd.arcHeld then
        let allocs := release s.allocs rd.schema
        -- dropping `reader_state` afterwards touches the schema it points into
        { s with readers := s.readers.set r { rd with stateAlive := false, arcHeld := false },
                 allocs := allocs,
                 useAfterFree := s.useAfterFree || isFreed allocs rd.schema }
      else s
    | none => s
  | op => step s op

end Avro.Impl.Lifetimes
