import AvroModel.Basic.Bytes
/-
The serde data model as seen by a `Serializer`: a `SerdeValue` is the tree of serializer calls a
Rust value makes (DESIGN.md 4.1).  Strings are Lean `String`s (valid UTF-8 by construction, as
Rust `&str`), byte payloads are byte lists, floats are bit patterns.
-/
namespace Avro.Impl

open Avro

inductive IntTy | i8 | i16 | i32 | i64 | i128 | u8 | u16 | u32 | u64 | u128
  deriving DecidableEq, Repr, Inhabited

def IntTy.sizeOf : IntTy → Nat
  | .i8 | .u8 => 1 | .i16 | .u16 => 2 | .i32 | .u32 => 4 | .i64 | .u64 => 8 | .i128 | .u128 => 16

def IntTy.signed : IntTy → Bool
  | .i8 | .i16 | .i32 | .i64 | .i128 => true
  | _ => false

/-- Range of each Rust integer type. -/
def IntTy.inRange (t : IntTy) (v : Int) : Bool :=
  if t.signed then
    decide (-(2 : Int) ^ (8 * t.sizeOf - 1) ≤ v ∧ v < (2 : Int) ^ (8 * t.sizeOf - 1))
  else decide (0 ≤ v ∧ v < (2 : Int) ^ (8 * t.sizeOf))

inductive SV
  | bool (b : Bool)
  | int (ty : IntTy) (v : Int)
  | f32 (bits : BitVec 32)
  | f64 (bits : BitVec 64)
  | char (c : Char)
  | str (s : String)
  | bytes (b : Bytes)
  | none
  | some (v : SV)
  | unit
  | unitStruct (name : String)
  | unitVariant (name : String) (idx : Nat) (variant : String)
  | newtypeStruct (name : String) (v : SV)
  | newtypeVariant (name : String) (idx : Nat) (variant : String) (v : SV)
  | seq (len : Option Nat) (elems : List SV)
  | tuple (elems : List SV)
  | tupleStruct (name : String) (elems : List SV)
  | tupleVariant (name : String) (idx : Nat) (variant : String) (elems : List SV)
  | map (len : Option Nat) (entries : List (SV × SV))
  | struct (name : String) (fields : List (String × SV))
  | structVariant (name : String) (idx : Nat) (variant : String) (fields : List (String × SV))
  deriving Repr, Inhabited

end Avro.Impl
