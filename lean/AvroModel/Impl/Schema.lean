import AvroModel.Basic.Bytes
/-
The schema graph as the crate holds it: `SchemaMut` (editable: regular type + optional logical
type per node, children by index) and the frozen `Schema` (23 node kinds).
Mirrors `schema/safe/mod.rs`, `schema/mod.rs` (Name) and `schema/self_referential.rs`.
-/
namespace Avro.Impl

open Avro

/-- `schema::Name`: fully qualified name plus where the namespace stops.
    `short`/`ns` are what `name()` / `namespace()` return. -/
structure Name where
  fq : String
  short : String
  ns : Option String
  deriving DecidableEq, Repr, Inhabited

/-- Index of the last `'.'` in a character list, if any. -/
def rfindDot (cs : List Char) : Option Nat :=
  let rec go : List Char → Nat → Option Nat → Option Nat
    | [], _, acc => acc
    | c :: rest, i, acc => go rest (i + 1) (if c = '.' then some i else acc)
  go cs 0 none

/-- `Name::from_fully_qualified_name`: split at the last dot; a leading dot that is the last dot
    is removed and means "no namespace". -/
def Name.ofFq (s : String) : Name :=
  let cs := s.toList
  match rfindDot cs with
  | none => { fq := s, short := s, ns := none }
  | some 0 =>
    let s' := String.ofList (cs.drop 1)
    { fq := s', short := s', ns := none }
  | some i => { fq := s, short := String.ofList (cs.drop (i + 1)), ns := some (String.ofList (cs.take i)) }

inductive DecimalRepr
  | bytes
  | fixed (name : Name) (size : Nat)
  deriving DecidableEq, Repr, Inhabited

/-- `schema::safe::RegularType`. Children are node indices (`SchemaKey`). -/
inductive RegularType
  | null | boolean | int | long | float | double | bytes | string
  | array (items : Nat)
  | map (values : Nat)
  | union (variants : List Nat)
  | record (name : Name) (fields : List (String × Nat))
  | enum (name : Name) (symbols : List String)
  | fixed (name : Name) (size : Nat)
  deriving DecidableEq, Repr, Inhabited

/-- `schema::safe::LogicalType`. -/
inductive LogicalType
  | decimal (scale : Nat) (precision : Nat)
  | uuid | date | timeMillis | timeMicros | timestampMillis | timestampMicros | duration | bigDecimal
  | unknown (name : String)
  deriving DecidableEq, Repr, Inhabited

structure RawNode where
  type : RegularType
  logical : Option LogicalType
  deriving DecidableEq, Repr, Inhabited

/-- `SchemaMut.nodes` (the JSON text cache is modelled separately where it matters). -/
abbrev SchemaMut := Array RawNode

/-- Frozen node kinds, `schema::self_referential::SchemaNode`. -/
inductive Node
  | null | boolean | int | long | float | double | bytes | string
  | array (items : Nat)
  | map (values : Nat)
  | union (variants : List Nat)
  | record (name : Name) (fields : List (String × Nat))
  | enum (name : Name) (symbols : List String)
  | fixed (name : Name) (size : Nat)
  | decimal (scale : Nat) (precision : Nat) (repr : DecimalRepr)
  | bigDecimal | uuid | date | timeMillis | timeMicros | timestampMillis | timestampMicros | duration
  deriving DecidableEq, Repr, Inhabited

abbrev Schema := Array Node

/-- The (logical, base) matching table of `TryFrom<SchemaMut> for Schema`
    (`self_referential.rs`): anything unmatched falls back to the base type. -/
def freezeNode (n : RawNode) : Node :=
  match n.logical, n.type with
  | some (.decimal s p), .bytes => .decimal s p .bytes
  | some (.decimal s p), .fixed nm sz => .decimal s p (.fixed nm sz)
  | some .uuid, .string => .uuid
  | some .date, .int => .date
  | some .timeMillis, .int => .timeMillis
  | some .timeMicros, .long => .timeMicros
  | some .timestampMillis, .long => .timestampMillis
  | some .timestampMicros, .long => .timestampMicros
  | some .duration, .fixed nm sz => if sz = 12 then .duration else .fixed nm sz
  | some .bigDecimal, .bytes => .bigDecimal
  | _, .null => .null
  | _, .boolean => .boolean
  | _, .int => .int
  | _, .long => .long
  | _, .float => .float
  | _, .double => .double
  | _, .bytes => .bytes
  | _, .string => .string
  | _, .array i => .array i
  | _, .map v => .map v
  | _, .union vs => .union vs
  | _, .record nm fs => .record nm fs
  | _, .enum nm syms => .enum nm syms
  | _, .fixed nm sz => .fixed nm sz

/-- Child keys of a regular type, in document order. -/
def RegularType.children : RegularType → List Nat
  | .array i => [i]
  | .map v => [v]
  | .union vs => vs
  | .record _ fs => fs.map (·.2)
  | _ => []

def Node.children : Node → List Nat
  | .array i => [i]
  | .map v => [v]
  | .union vs => vs
  | .record _ fs => fs.map (·.2)
  | _ => []

/-- All keys in bounds: what `key_to_ref` checks during freeze. -/
def SchemaMut.keysInBounds (s : SchemaMut) : Bool :=
  s.all fun n => n.type.children.all (· < s.size)

def Schema.keysInBounds (s : Schema) : Bool :=
  s.all fun n => n.children.all (· < s.size)

/-- The node-vector part of freezing (fingerprint and JSON are separate, see `Freeze`). -/
def freezeNodes (s : SchemaMut) : Schema := s.map freezeNode

end Avro.Impl
