import AvroModel.Impl.Schema
/-
`schema/union_variants_per_type_lookup.rs`: which union branch a serializer call selects.
The priority table is transcribed arm by arm; the fold is the `register` closure.
-/
namespace Avro.Impl

inductive LookupKey
  | null | unitStruct | boolean | integer | integer4 | integer8 | float4 | float8
  | str | sliceU8 | unitVariant | structOrMap | seqOrTuple
  deriving DecidableEq, Repr, Inhabited

inductive Slot
  | none
  | some (priority : Nat) (discriminant : Nat)
  | conflict (priority : Nat)
  deriving DecidableEq, Repr, Inhabited

/-- The `register` closure: favour the lowest priority, equal priorities conflict. -/
def Slot.register (s : Slot) (prio disc : Nat) : Slot :=
  match s with
  | .none => .some prio disc
  | .some old d =>
    if old < prio then .some old d
    else if old = prio then .conflict old
    else .some prio disc
  | .conflict old => if prio < old then .some prio disc else .conflict old

/-- The `register(key, priority)` calls made for a branch of each kind. -/
def Node.registrations : Node → List (LookupKey × Nat)
  | .null => [(.null, 0), (.unitStruct, 0), (.unitVariant, 2)]
  | .boolean => [(.boolean, 0)]
  | .int => [(.integer, 0), (.integer4, 0), (.integer8, 1)]
  | .long => [(.integer, 0), (.integer4, 1), (.integer8, 0)]
  | .float => [(.float4, 0), (.float8, 1)]
  | .double => [(.float8, 0), (.float4, 1)]
  | .bytes => [(.str, 10), (.unitStruct, 10), (.sliceU8, 0), (.seqOrTuple, 2), (.unitVariant, 10)]
  | .string => [(.str, 0), (.unitStruct, 0), (.sliceU8, 1), (.unitVariant, 1)]
  | .array _ => [(.seqOrTuple, 0)]
  | .map _ => [(.structOrMap, 0)]
  | .union _ => []
  | .enum _ _ => [(.integer, 10), (.integer4, 10), (.integer8, 10), (.unitStruct, 0), (.str, 5),
      (.unitVariant, 0)]
  | .record _ _ => [(.structOrMap, 0)]
  | .fixed _ _ => [(.str, 15), (.sliceU8, 0), (.seqOrTuple, 2)]
  | .decimal _ _ _ => [(.integer, 5), (.integer4, 5), (.integer8, 5), (.float8, 2), (.str, 20)]
  | .bigDecimal => [(.integer, 5), (.integer4, 5), (.integer8, 5), (.float8, 2), (.str, 20)]
  | .uuid => [(.str, 0)]
  | .date => [(.integer, 0), (.integer4, 0), (.integer8, 1)]
  | .timeMillis => [(.integer, 0), (.integer4, 0), (.integer8, 1)]
  | .timeMicros => [(.integer, 0), (.integer4, 1), (.integer8, 0)]
  | .timestampMillis => [(.integer, 0), (.integer4, 1), (.integer8, 0)]
  | .timestampMicros => [(.integer, 0), (.integer4, 1), (.integer8, 0)]
  | .duration => [(.structOrMap, 5), (.seqOrTuple, 5), (.sliceU8, 5)]

/-- Names inserted in `per_name` for a branch, in insertion order. -/
def Node.lookupNames : Node → List String
  | .null => ["Null"] | .boolean => ["Boolean"] | .int => ["Int"] | .long => ["Long"]
  | .float => ["Float"] | .double => ["Double"] | .bytes => ["Bytes"] | .string => ["String"]
  | .array _ => ["Array"] | .map _ => ["Map"] | .union _ => ["Union"]
  | .enum nm _ => [nm.short, nm.fq]
  | .record nm _ => [nm.short, nm.fq]
  | .fixed nm _ => [nm.short, nm.fq]
  | .decimal _ _ (.fixed nm _) => ["Decimal", nm.short, nm.fq]
  | .decimal _ _ .bytes => ["Decimal"]
  | .bigDecimal => ["BigDecimal"] | .uuid => ["Uuid"] | .date => ["Date"]
  | .timeMillis => ["TimeMillis"] | .timeMicros => ["TimeMicros"]
  | .timestampMillis => ["TimestampMillis"] | .timestampMicros => ["TimestampMicros"]
  | .duration => []

/-- Priority a branch kind registers for a key (first registration; each kind registers a key
    at most once). -/
def Node.priorityFor (n : Node) (k : LookupKey) : Option Nat :=
  (n.registrations.find? (·.1 = k)).map (·.2)

/-- Fold of `register` over the branches, for one key.  `branches` are the resolved branch
    nodes in order. -/
def slotFor (k : LookupKey) (branches : List Node) : Slot :=
  let rec go : List Node → Nat → Slot → Slot
    | [], _, s => s
    | n :: rest, disc, s =>
      go rest (disc + 1) (match n.priorityFor k with
        | some p => s.register p disc
        | none => s)
  go branches 0 .none

/-- `PerTypeLookup::unnamed`: discriminant of the selected branch. -/
def unnamedLookup (k : LookupKey) (branches : List Node) : Option Nat :=
  match slotFor k branches with
  | .some _ d => some d
  | _ => none

/-- `PerTypeLookup::named`: later insertions overwrite earlier ones, so the *last* branch that
    registers the name wins. -/
def namedLookup (name : String) (branches : List Node) : Option Nat :=
  let rec go : List Node → Nat → Option Nat → Option Nat
    | [], _, acc => acc
    | n :: rest, disc, acc => go rest (disc + 1) (if n.lookupNames.contains name then some disc else acc)
  go branches 0 none

end Avro.Impl
