import AvroModel.Impl.De
/-
What the deserializer needs from `rust_decimal` (a parameter of the model, DESIGN.md section 7):
`Decimal::try_from_i128_with_scale` accepts exactly |m| < 2^96 and scale ≤ 28, and `Display`
prints the unscaled integer with the decimal point `scale` digits from the right.
Tied to the library by the `de*` correspondence streams.
-/
namespace Avro.Impl

def natDigits (n : Nat) : List Char := (toString n).toList

def decToStringModel (unscaled : Int) (scale : Nat) : Option String :=
  if unscaled.natAbs ≥ 2 ^ 96 ∨ scale > 28 then none else
  let digits := natDigits unscaled.natAbs
  let body : List Char :=
    if scale = 0 then digits
    else
      let padded := List.replicate (scale + 1 - digits.length) '0' ++ digits
      padded.take (padded.length - scale) ++ ['.'] ++ padded.drop (padded.length - scale)
  some (String.ofList ((if unscaled < 0 then ['-'] else []) ++ body))

def deExtModel : DeExt where
  decToString := decToStringModel
  decToF64 := fun _ _ => none

end Avro.Impl
