import AvroModel.Impl.Schema
/-
Schema construction as the crate does it:
* `parse`: JSON value → raw nodes (`parsing/raw.rs`) → `register_node` with enclosing namespace,
  the name table and *late* resolution of forward references → `check_for_cycles`
  (`parsing/mod.rs`, `check_for_cycles.rs`);
* `canonicalForm`: the Parsing Canonical Form writer (`canonical_form.rs`), with the on-path
  guard for unnamed types added by the repair of D2;
* `render`: regeneration of the JSON (`serialize.rs`) with its generation-counter cycle guard;
* `freeze`: what `TryFrom<SchemaMut> for Schema` checks.
DESIGN.md Appendix A.8.  JSON text ⇄ JSON value (`serde_json`) is a parameter: the model starts
from the value, with object members as an ordered list (duplicates preserved).
-/
namespace Avro.Impl

/-- JSON values as `serde_json` hands them to a visitor. Numbers: only non-negative integers
    matter to schemas (`size`, `precision`, `scale`); anything else is `numOther`. -/
inductive Json
  | null
  | bool (b : Bool)
  | nat (n : Nat)
  | numOther
  | str (s : String)
  | arr (items : List Json)
  | obj (members : List (String × Json))
  deriving Repr, Inhabited

inductive SchemaErr | json | custom | cycle | panic
  deriving DecidableEq, Repr, Inhabited

/-! ### raw.rs -/

inductive RawType | null | boolean | int | long | float | double | bytes | string
  | array | map | record | enum | fixed
  deriving DecidableEq, Repr, Inhabited

def RawType.ofString (s : String) : Option RawType :=
  match s with
  | "null" => some .null | "boolean" => some .boolean | "int" => some .int | "long" => some .long
  | "float" => some .float | "double" => some .double | "bytes" => some .bytes
  | "string" => some .string | "array" => some .array | "map" => some .map
  | "record" => some .record | "enum" => some .enum | "fixed" => some .fixed
  | _ => none

/-- scalar attributes of a schema object -/
structure RawAttrs where
  type : RawType
  logicalType : Option String
  name : Option String
  nsAttr : Option String
  symbols : Option (List String)
  size : Option Nat
  precision : Option Nat
  scale : Option Nat
  deriving Repr, Inhabited

inductive RawSchema
  | type (t : RawType)
  | ref (name : String)
  | object (a : RawAttrs) (fields : Option (List (String × RawSchema)))
      (items : Option RawSchema) (values : Option RawSchema)
  | union (branches : List RawSchema)

instance : Inhabited RawSchema := ⟨.type .null⟩

/-- Look up a known member of a derived struct: a duplicate is an error (`duplicate field`). -/
def member (members : List (String × Json)) (key : String) : Except SchemaErr (Option Json) :=
  match members.filter (·.1 = key) with
  | [] => .ok none
  | [(_, v)] => .ok (some v)
  | _ => .error .json

def optString (j : Option Json) : Except SchemaErr (Option String) :=
  match j with
  | none | some .null => .ok none
  | some (.str s) => .ok (some s)
  | some _ => .error .json

def optNat (j : Option Json) (max : Nat) : Except SchemaErr (Option Nat) :=
  match j with
  | none | some .null => .ok none
  | some (.nat n) => if n ≤ max then .ok (some n) else .error .json
  | some _ => .error .json

mutual

/-- `impl Deserialize for SchemaNode` -/
def rawOfJson : Nat → Json → Except SchemaErr RawSchema
  | 0, _ => .error .json
  | fuel + 1, j =>
    match j with
    | .str s =>
      match RawType.ofString s with
      | some t => .ok (.type t)
      | none => .ok (.ref s)
    | .arr items =>
      match rawListOfJson fuel items with
      | .ok l => .ok (.union l)
      | .error e => .error e
    | .obj members =>
      rawObjectOfJson fuel members
    | _ => .error .json

def rawListOfJson : Nat → List Json → Except SchemaErr (List RawSchema)
  | _, [] => .ok []
  | 0, _ :: _ => .error .json
  | fuel + 1, j :: rest =>
    match rawOfJson fuel j with
    | .error e => .error e
    | .ok r => match rawListOfJson fuel rest with
      | .error e => .error e
      | .ok rs => .ok (r :: rs)

/-- derived `Deserialize for SchemaNodeObject` (unknown members are skipped) -/
def rawObjectOfJson : Nat → List (String × Json) → Except SchemaErr RawSchema
  | 0, _ => .error .json
  | fuel + 1, members => do
    let ty ← (match member members "type" with
      | .error e => .error e
      | .ok (some (.str s)) => (match RawType.ofString s with
        | some t => .ok t
        | none => .error .json)
      | .ok _ => .error .json : Except SchemaErr RawType)
    let logicalType ← (do optString (← member members "logicalType"))
    let name ← (do optString (← member members "name"))
    let ns ← (do optString (← member members "namespace"))
    let fields ← (match member members "fields" with
      | .error e => .error e
      | .ok none | .ok (some .null) => .ok none
      | .ok (some (.arr items)) => (match rawFieldsOfJson fuel items with
        | .ok fs => .ok (some fs)
        | .error e => .error e)
      | .ok (some _) => .error .json : Except SchemaErr (Option (List (String × RawSchema))))
    let symbols ← (match member members "symbols" with
      | .error e => .error e
      | .ok none | .ok (some .null) => .ok none
      | .ok (some (.arr items)) =>
        (match items.mapM (fun j => match j with | .str s => some s | _ => none) with
          | some l => .ok (some l)
          | none => .error .json)
      | .ok (some _) => .error .json : Except SchemaErr (Option (List String)))
    let items ← (match member members "items" with
      | .error e => .error e
      | .ok none | .ok (some .null) => .ok none
      | .ok (some j) => (match rawOfJson fuel j with
        | .ok r => .ok (some r)
        | .error e => .error e) : Except SchemaErr (Option RawSchema))
    let values ← (match member members "values" with
      | .error e => .error e
      | .ok none | .ok (some .null) => .ok none
      | .ok (some j) => (match rawOfJson fuel j with
        | .ok r => .ok (some r)
        | .error e => .error e) : Except SchemaErr (Option RawSchema))
    let size ← (do optNat (← member members "size") (2 ^ 64 - 1))
    let precision ← (do optNat (← member members "precision") (2 ^ 64 - 1))
    let scale ← (do optNat (← member members "scale") (2 ^ 32 - 1))
    pure (.object { type := ty, logicalType, name, nsAttr := ns, symbols, size, precision, scale }
      fields items values)

def rawFieldsOfJson : Nat → List Json → Except SchemaErr (List (String × RawSchema))
  | _, [] => .ok []
  | 0, _ :: _ => .error .json
  | fuel + 1, j :: rest =>
    match j with
    | .obj members =>
      match member members "name", member members "type" with
      | .ok (some (.str name)), .ok (some t) =>
        (match rawOfJson fuel t with
          | .error e => .error e
          | .ok r => match rawFieldsOfJson fuel rest with
            | .error e => .error e
            | .ok fs => .ok ((name, r) :: fs))
      | _, _ => .error .json
    | _ => .error .json

end

/-! ### register_node -/

/-- `NameKey { namespace, name }` -/
structure NameKey where
  ns : Option String
  name : String
  deriving DecidableEq, Repr, Inhabited

def NameKey.toName (k : NameKey) : Name :=
  match k.ns with
  | none => { fq := k.name, short := k.name, ns := none }
  | some ns => { fq := ns ++ "." ++ k.name, short := k.name, ns := some ns }

/-- `s.rsplit_once('.')` -/
def rsplitDot (s : String) : Option (String × String) :=
  match rfindDot s.toList with
  | none => none
  | some i => some (String.ofList (s.toList.take i), String.ofList (s.toList.drop (i + 1)))

def nonEmpty (s : String) : Option String := if s.isEmpty then none else some s

/-- key of a reference string in the enclosing namespace -/
def refKey (reference : String) (enclosing : Option String) : NameKey :=
  match rsplitDot reference with
  | some (ns, name) => { ns := nonEmpty ns, name := name }
  | none => { ns := enclosing, name := reference }

/-- key of a definition: dotted name wins; else the `namespace` attribute ("" = none); else the
    enclosing namespace -/
def defKey (name : String) (nsAttr : Option String) (enclosing : Option String) : NameKey :=
  match rsplitDot name with
  | some (ns, short) => { ns := nonEmpty ns, name := short }
  | none =>
    { ns := match nsAttr with
        | some ns => nonEmpty ns
        | none => enclosing,
      name := name }

/-- Child keys while registering: resolved index, or a pending late-lookup slot. -/
inductive PKey | idx (i : Nat) | pending (j : Nat)
  deriving Repr, Inhabited

inductive PType
  | null | boolean | int | long | float | double | bytes | string
  | array (items : PKey) | map (values : PKey) | union (variants : List PKey)
  | record (name : Name) (fields : List (String × PKey))
  | enum (name : Name) (symbols : List String)
  | fixed (name : Name) (size : Nat)
  deriving Repr, Inhabited

structure PNode where
  type : PType
  logical : Option LogicalType
  deriving Repr, Inhabited

structure PState where
  nodes : Array PNode := #[]
  names : List (NameKey × Nat) := []      -- the `HashMap<NameKey, usize>`
  unresolved : List NameKey := []         -- in push order
  deriving Repr, Inhabited

def logicalOf (o : RawAttrs) : Except SchemaErr (Option LogicalType) :=
  match o.logicalType with
  | none => .ok none
  | some "decimal" =>
    match o.precision with
    | none => .error .custom
    | some p => .ok (some (.decimal (o.scale.getD 0) p))     -- `scale` optional since the repair of D1
  | some "uuid" => .ok (some .uuid)
  | some "date" => .ok (some .date)
  | some "time-millis" => .ok (some .timeMillis)
  | some "time-micros" => .ok (some .timeMicros)
  | some "timestamp-millis" => .ok (some .timestampMillis)
  | some "timestamp-micros" => .ok (some .timestampMicros)
  | some "duration" => .ok (some .duration)
  | some "big-decimal" => .ok (some .bigDecimal)
  | some other => .ok (some (.unknown other))

mutual

/-- `register_node(raw_schema, enclosing_namespace)` -/
def registerNode : Nat → RawSchema → Option String → PState → Except SchemaErr (PKey × PState)
  | 0, _, _, _ => .error .panic
  | fuel + 1, raw, enclosing, st =>
    match raw with
    | .ref reference =>
      let key := refKey reference enclosing
      match st.names.lookup key with
      | some i => .ok (.idx i, st)
      | none => .ok (.pending st.unresolved.length, { st with unresolved := st.unresolved ++ [key] })
    | .type t => registerObject fuel t none none none none enclosing st
    | .object a fields items values => registerObject fuel a.type (some a) fields items values enclosing st
    | .union branches =>
      let idx := st.nodes.size
      let st := { st with nodes := st.nodes.push { type := .null, logical := none } }
      match registerList fuel branches enclosing st with
      | .error e => .error e
      | .ok (keys, st) =>
        .ok (.idx idx, { st with nodes := st.nodes.set! idx { type := .union keys, logical := none } })

/-- the part of `register_node` for a type name (with or without its object) -/
def registerObject : Nat → RawType → Option RawAttrs → Option (List (String × RawSchema)) →
    Option RawSchema → Option RawSchema → Option String → PState →
    Except SchemaErr (PKey × PState)
  | 0, _, _, _, _, _, _, _ => .error .panic
  | fuel + 1, t, object, ofields, oitems, ovalues, enclosing, st =>
    let idx := st.nodes.size
    let st := { st with nodes := st.nodes.push { type := .null, logical := none } }
    -- register the name (any object that carries a `name`, whatever its type)
    let nameRes : Except SchemaErr (Option NameKey × PState) :=
      match object with
      | some o =>
        (match o.name with
          | some name =>
            let key := defKey name o.nsAttr enclosing
            if (st.names.lookup key).isSome then .error .custom
            else .ok (some key, { st with names := (key, idx) :: st.names })
          | none => .ok (none, st))
      | none => .ok (none, st)
    match nameRes with
    | .error e => .error e
    | .ok (nameKey, st) =>
      let needName : Except SchemaErr NameKey := match nameKey with
        | some k => .ok k
        | none => .error .custom
      -- `field!`: complex type given as a bare string, or attribute missing
      let body : Except SchemaErr (PType × PState) :=
        match t with
        | .null => .ok (.null, st) | .boolean => .ok (.boolean, st) | .int => .ok (.int, st)
        | .long => .ok (.long, st) | .float => .ok (.float, st) | .double => .ok (.double, st)
        | .bytes => .ok (.bytes, st) | .string => .ok (.string, st)
        | .array =>
          (match oitems with
            | none => .error .custom
            | some items =>
              match registerNode fuel items enclosing st with
              | .error e => .error e
              | .ok (k, st) => .ok (.array k, st))
        | .map =>
          (match ovalues with
            | none => .error .custom
            | some values =>
              match registerNode fuel values enclosing st with
              | .error e => .error e
              | .ok (k, st) => .ok (.map k, st))
        | .enum =>
          (match needName with
            | .error e => .error e
            | .ok k =>
              match object.bind (·.symbols) with
              | none => .error .custom
              | some syms => .ok (.enum k.toName syms, st))
        | .fixed =>
          (match needName with
            | .error e => .error e
            | .ok k =>
              match object.bind (·.size) with
              | none => .error .custom
              | some size => .ok (.fixed k.toName size, st))
        | .record =>
          (match needName with
            | .error e => .error e
            | .ok k =>
              match ofields with
              | none => .error .custom
              | some fields =>
                match registerFields fuel fields k.ns st with
                | .error e => .error e
                | .ok (fs, st) => .ok (.record k.toName fs, st))
      match body with
      | .error e => .error e
      | .ok (ty, st) =>
        match (match object with | some o => logicalOf o | none => .ok none) with
        | .error e => .error e
        | .ok lt => .ok (.idx idx, { st with nodes := st.nodes.set! idx { type := ty, logical := lt } })

def registerList : Nat → List RawSchema → Option String → PState →
    Except SchemaErr (List PKey × PState)
  | _, [], _, st => .ok ([], st)
  | 0, _ :: _, _, _ => .error .panic
  | fuel + 1, r :: rest, enclosing, st =>
    match registerNode fuel r enclosing st with
    | .error e => .error e
    | .ok (k, st) =>
      match registerList fuel rest enclosing st with
      | .error e => .error e
      | .ok (ks, st) => .ok (k :: ks, st)

def registerFields : Nat → List (String × RawSchema) → Option String → PState →
    Except SchemaErr (List (String × PKey) × PState)
  | _, [], _, st => .ok ([], st)
  | 0, _ :: _, _, _ => .error .panic
  | fuel + 1, (name, r) :: rest, ns, st =>
    match registerNode fuel r ns st with
    | .error e => .error e
    | .ok (k, st) =>
      match registerFields fuel rest ns st with
      | .error e => .error e
      | .ok (fs, st) => .ok ((name, k) :: fs, st)

end

/-- late resolution: every pending slot through the final name table -/
def resolveKeys (st : PState) : Except SchemaErr SchemaMut :=
  match st.unresolved.mapM (fun k => st.names.lookup k) with
  | none => .error .custom
  | some resolved =>
    let fix : PKey → Nat
      | .idx i => i
      | .pending j => resolved[j]?.getD 0
    .ok (st.nodes.map fun n =>
      { logical := n.logical,
        type := match n.type with
          | .null => .null | .boolean => .boolean | .int => .int | .long => .long
          | .float => .float | .double => .double | .bytes => .bytes | .string => .string
          | .array k => .array (fix k)
          | .map k => .map (fix k)
          | .union ks => .union (ks.map fix)
          | .record nm fs => .record nm (fs.map fun (f, k) => (f, fix k))
          | .enum nm syms => .enum nm syms
          | .fixed nm size => .fixed nm size })

/-! ### check_for_cycles (after the repair of D3a: standard white/grey/black DFS) -/

def isRecord (S : SchemaMut) (i : Nat) : Bool :=
  match S[i]? with
  | some { type := .record _ _, .. } => true
  | _ => false

def recordFieldKeys (S : SchemaMut) (i : Nat) : List Nat :=
  match S[i]? with
  | some { type := .record _ fs, .. } => fs.map (·.2)
  | _ => []

structure CycleState where
  visited : List Nat := []    -- on the current path
  checked : List Nat := []    -- entirely explored
  deriving Repr, Inhabited

mutual
def cycleInner (S : SchemaMut) : Nat → Nat → CycleState → Except SchemaErr CycleState
  | 0, _, _ => .error .panic
  | fuel + 1, idx, cs =>
    let cs := { cs with visited := idx :: cs.visited }
    match cycleFields S fuel (recordFieldKeys S idx) cs with
    | .error e => .error e
    | .ok cs => .ok { visited := cs.visited.erase idx, checked := idx :: cs.checked }
def cycleFields (S : SchemaMut) : Nat → List Nat → CycleState → Except SchemaErr CycleState
  | _, [], cs => .ok cs
  | 0, _ :: _, _ => .error .panic
  | fuel + 1, k :: rest, cs =>
    if isRecord S k then
      if cs.visited.contains k then .error .cycle
      else if cs.checked.contains k then cycleFields S fuel rest cs
      else match cycleInner S fuel k cs with
        | .error e => .error e
        | .ok cs => cycleFields S fuel rest cs
    else cycleFields S fuel rest cs
end

/-- longest field list / union of the graph -/
def maxWidth (S : SchemaMut) : Nat :=
  (S.toList.map fun n => match n.type with
    | .record _ fs => fs.length
    | .union vs => vs.length
    | _ => 0).foldl max 0

def checkForCycles (S : SchemaMut) : Except SchemaErr Unit :=
  let rec go : Nat → Nat → CycleState → Except SchemaErr Unit
    | 0, _, _ => .ok ()
    | n + 1, i, cs =>
      if isRecord S i ∧ ¬ cs.checked.contains i then
        match cycleInner S ((S.size + 2) * (maxWidth S + 2)) i cs with
        | .error e => .error e
        | .ok cs => go n (i + 1) cs
      else go n (i + 1) cs
  go S.size 0 {}

/-! ### the recursion limit of `serde_json`, and gas for the readers

`serde_json` refuses a document whose arrays / objects are nested more than 127 deep (recursion
limit 128; it counts container nesting only — also inside members the schema reader skips — and
neither the number of members of an object nor the number of elements of an array).  The fuel of
`rawOfJson` and friends is therefore pure gas: `parseJson` checks `jsonNesting` explicitly and
hands them `rawGas j`, which always suffices (`Lemmas/ValidParsesGas.lean`:
`parseDepth_le_rawGas`, `rawOfJson_gas_irrelevant`). -/

mutual

/-- nesting depth of the arrays and objects of a JSON value (a scalar: 0) -/
def jsonNesting : Json → Nat
  | .arr items => 1 + jsonNestingList items
  | .obj members => 1 + jsonNestingMembers members
  | _ => 0

def jsonNestingList : List Json → Nat
  | [] => 0
  | j :: rest => max (jsonNesting j) (jsonNestingList rest)

def jsonNestingMembers : List (String × Json) → Nat
  | [] => 0
  | (_, v) :: rest => max (jsonNesting v) (jsonNestingMembers rest)

end

mutual

/-- weight of a JSON value: one per value, one per array element / object member (only used for
    `rawGas`; the name avoids the `jsonSize` of the test driver) -/
def jsonWeight : Json → Nat
  | .arr items => 1 + jsonWeightList items
  | .obj members => 1 + jsonWeightMembers members
  | _ => 1

def jsonWeightList : List Json → Nat
  | [] => 0
  | j :: rest => 1 + jsonWeight j + jsonWeightList rest

def jsonWeightMembers : List (String × Json) → Nat
  | [] => 0
  | (_, v) :: rest => 1 + jsonWeight v + jsonWeightMembers rest

end

/-- gas for `rawOfJson`: always enough -/
def rawGas (j : Json) : Nat := 2 * jsonWeight j + 2

/-- `impl FromStr for SchemaMut`, from the JSON value.  `serde_json` first: its recursion limit
    (128) rejects arrays / objects nested more than 127 deep. -/
def parseJson (j : Json) (nodeCount : Nat) : Except SchemaErr SchemaMut :=
  if jsonNesting j > 127 then .error .json
  else
    match rawOfJson (rawGas j) j with
    | .error e => .error e
    | .ok raw =>
      match registerNode (nodeCount + 2) raw none {} with
      | .error e => .error e
      | .ok (_, st) =>
        match resolveKeys st with
        | .error e => .error e
        | .ok S =>
          match checkForCycles S with
          | .error e => .error e
          | .ok _ => .ok S

/-! ### Parsing Canonical Form -/

structure PcfState where
  out : String := ""
  written : List Nat := []       -- named types already written in full
  /-- `unnamed_type_being_written`, sparse: for an array, map or union being written, `1 +` the
      number of named types written when it was entered (absent = 0 = not being written). -/
  onPath : List (Nat × Nat) := []
  deriving Repr, Inhabited

def joinWith (sep : String) : List String → String
  | [] => ""
  | [a] => a
  | a :: rest => a ++ sep ++ joinWith sep rest

mutual
/-- `write_canonical_form(schema, key)`. -/
def pcf (S : SchemaMut) : Nat → Nat → PcfState → Except SchemaErr PcfState
  | 0, _, _ => .error .panic
  | fuel + 1, key, st =>
    match S[key]? with
    | none => .error .custom
    | some node =>
      let prim (s : String) : Except SchemaErr PcfState := .ok { st with out := st.out ++ "\"" ++ s ++ "\"" }
      let named (name : Name) (full : PcfState → Except SchemaErr PcfState) : Except SchemaErr PcfState :=
        if st.written.contains key then .ok { st with out := st.out ++ "\"" ++ name.fq ++ "\"" }
        else full { st with written := key :: st.written }
      -- `enter_unnamed` … restore: meeting the node again is an error only if no named type was
      -- written since it was entered (`n_named_types_written` is `written.length`)
      let unnamed (body : PcfState → Except SchemaErr PcfState) : Except SchemaErr PcfState :=
        let gen := st.written.length + 1
        let prev := (st.onPath.lookup key).getD 0
        if prev = gen then .error .custom
        else match body { st with onPath := (key, gen) :: st.onPath.filter (·.1 ≠ key) } with
          | .error e => .error e
          | .ok st' => .ok { st' with onPath := (key, prev) :: st'.onPath.filter (·.1 ≠ key) }
      match node.type with
      | .null => prim "null" | .boolean => prim "boolean" | .bytes => prim "bytes"
      | .double => prim "double" | .float => prim "float" | .int => prim "int"
      | .long => prim "long" | .string => prim "string"
      | .union vs => unnamed fun st =>
          match pcfList S fuel vs true { st with out := st.out ++ "[" } with
          | .error e => .error e
          | .ok st => .ok { st with out := st.out ++ "]" }
      | .array items => unnamed fun st =>
          match pcf S fuel items { st with out := st.out ++ "{\"type\":\"array\",\"items\":" } with
          | .error e => .error e
          | .ok st => .ok { st with out := st.out ++ "}" }
      | .map values => unnamed fun st =>
          match pcf S fuel values { st with out := st.out ++ "{\"type\":\"map\",\"values\":" } with
          | .error e => .error e
          | .ok st => .ok { st with out := st.out ++ "}" }
      | .enum name syms => named name fun st =>
          let text := "{\"name\":\"" ++ name.fq ++ "\",\"type\":\"enum\",\"symbols\":[" ++ joinWith "," (syms.map fun s => "\"" ++ s ++ "\"") ++ "]}"
          .ok { st with out := st.out ++ text }
      | .fixed name size => named name fun st =>
          let text := "{\"name\":\"" ++ name.fq ++ "\",\"type\":\"fixed\",\"size\":" ++ toString size ++ "}"
          .ok { st with out := st.out ++ text }
      | .record name fields => named name fun st =>
          let text := "{\"name\":\"" ++ name.fq ++ "\",\"type\":\"record\",\"fields\":["
          match pcfFields S fuel fields true { st with out := st.out ++ text } with
          | .error e => .error e
          | .ok st => .ok { st with out := st.out ++ "]}" }

def pcfList (S : SchemaMut) : Nat → List Nat → Bool → PcfState → Except SchemaErr PcfState
  | _, [], _, st => .ok st
  | 0, _ :: _, _, _ => .error .panic
  | fuel + 1, k :: rest, first, st =>
    match pcf S fuel k (if first then st else { st with out := st.out ++ "," }) with
    | .error e => .error e
    | .ok st => pcfList S fuel rest false st

def pcfFields (S : SchemaMut) : Nat → List (String × Nat) → Bool → PcfState → Except SchemaErr PcfState
  | _, [], _, st => .ok st
  | 0, _ :: _, _, _ => .error .panic
  | fuel + 1, (name, k) :: rest, first, st =>
    let st := if first then st else { st with out := st.out ++ "," }
    match pcf S fuel k { st with out := st.out ++ "{\"name\":\"" ++ name ++ "\",\"type\":" } with
    | .error e => .error e
    | .ok st => pcfFields S fuel rest false { st with out := st.out ++ "}" }
end

def canonicalForm (S : SchemaMut) (fuel : Nat) : Except SchemaErr String :=
  match pcf S fuel 0 {} with
  | .error e => .error e
  | .ok st => .ok st.out

end Avro.Impl
