import AvroModel.Spec.Varint
/-
Model of the varint routines of `integer-encoding` 4.1.0 exactly as the crate uses them
(`VarInt::encode_var`, `VarInt::decode_var`, `VarIntProcessor`), transcribed from
`integer-encoding-4.1.0/src/{varint,reader}.rs`.  DESIGN.md Appendix A.1.
-/
namespace Avro.Impl

open Avro

/-- `u64::encode_var`: `while n >= 0x80 { dst[i] = MSB | (n as u8); n >>= 7 }; dst[i] = n as u8`. -/
def encodeVarU64 (n : Nat) : Bytes :=
  if _h : n < 0x80 then [UInt8.ofNat n]
  else UInt8.ofNat (0x80 ||| (n % 256)) :: encodeVarU64 (n >>> 7)
decreasing_by
  simp only [Nat.shiftRight_eq_div_pow]; omega

/-- `zigzag_encode(from: i64) = ((from << 1) ^ (from >> 63)) as u64`, on the two's complement
    bit pattern. -/
def zigzagBV (x : BitVec 64) : BitVec 64 := (x <<< 1) ^^^ (x.sshiftRight 63)

/-- `zigzag_decode(from: u64) = ((from >> 1) ^ (-((from & 1) as i64)) as u64) as i64`. -/
def unzigzagBV (x : BitVec 64) : BitVec 64 := (x >>> 1) ^^^ (-(x &&& 1))

/-- `i64::encode_var` (all signed widths are widened to i64 first). -/
def encodeVarI64 (i : Int) : Bytes := encodeVarU64 (zigzagBV (BitVec.ofInt 64 i)).toNat

/-- `u64::decode_var`, the loop state is `(result, shift)`. Returns value and bytes consumed. -/
def decodeVarU64Aux : Bytes → Nat → Nat → Option (Nat × Nat)
  | [], _, _ => none
  | b :: rest, result, shift =>
    let result := result ||| (((b.toNat &&& 0x7F) <<< shift) % 2 ^ 64)
    let shift := shift + 7
    if shift > 63 then
      (if b.toNat < 2 then some (result, shift / 7) else none)
    else if b.toNat &&& 0x80 = 0 then some (result, shift / 7)
    else decodeVarU64Aux rest result shift

def decodeVarU64 (src : Bytes) : Option (Nat × Nat) := decodeVarU64Aux src 0 0

/-- `i64::decode_var`. -/
def decodeVarI64 (src : Bytes) : Option (Int × Nat) :=
  match decodeVarU64 src with
  | none => none
  | some (n, s) => some ((unzigzagBV (BitVec.ofNat 64 n)).toInt, s)

/-- `i32::decode_var`: `i64::decode_var` then `try_from`. -/
def decodeVarI32 (src : Bytes) : Option (Int × Nat) :=
  match decodeVarI64 src with
  | none => none
  | some (n, s) => if -2147483648 ≤ n ∧ n ≤ 2147483647 then some (n, s) else none

/-- `u32::decode_var`: `u64::decode_var` then `try_from`. -/
def decodeVarU32 (src : Bytes) : Option (Nat × Nat) :=
  match decodeVarU64 src with
  | none => none
  | some (n, s) => if n < 2 ^ 32 then some (n, s) else none

/-- The integer types the crate reads as varints. -/
inductive VarTy | i32 | i64 | u32 | u64
  deriving DecidableEq, Repr

/-- `VarIntMaxSize::varint_max_size = (size_of * 8 + 7) / 7`. -/
def VarTy.maxSize : VarTy → Nat
  | .i32 | .u32 => 5
  | .i64 | .u64 => 10

/-- `VI::decode_var` by type; signed results as `Int`. -/
def decodeVar (t : VarTy) (src : Bytes) : Option (Int × Nat) :=
  match t with
  | .i32 => decodeVarI32 src
  | .i64 => decodeVarI64 src
  | .u32 => (decodeVarU32 src).map fun (n, s) => ((n : Int), s)
  | .u64 => (decodeVarU64 src).map fun (n, s) => ((n : Int), s)

end Avro.Impl
