import AvroModel.Basic.Bytes
/-
`writer/compression.rs`: the loops that drive a streaming compressor with `Finish` into an output
vector that starts at 32 KiB and is doubled on demand (deflate, bzip2, xz).  The compressor is a
parameter: it holds the complete compressed stream `total` of the block and, on each call, emits
some of what is left into the space it is given — how much is decided by an arbitrary *emission
schedule* (at least one byte whenever there is space and something left), which is all the
libraries' documentation promises.  After the repair of D13/D14 the three loops treat their
library's "more output pending" status (`Ok` for deflate and xz, `FinishOk` for bzip2) alike.
-/
namespace Avro.Impl.GrowLoop

open Avro

inductive Status
  | pending      -- flate2 `Ok`, bzip2 `FinishOk`, xz `Ok`: call again (more room may be needed)
  | streamEnd
  | noProgress   -- flate2 `BufError`, bzip2/xz `MemNeeded`
  deriving DecidableEq, Repr, Inhabited

structure Comp where
  /-- the complete compressed stream -/
  total : Bytes
  /-- bytes already emitted (`total_out`) -/
  done : Nat := 0
  /-- caps on what the coming calls emit (each is raised to at least 1); then "as much as fits" -/
  sched : List Nat := []
  deriving Repr, Inhabited

/-- one `compress(input, &mut out[total_out..], Finish)` call with `space` bytes of room -/
def Comp.call (c : Comp) (space : Nat) : Status × Bytes × Comp :=
  let left := c.total.length - c.done
  let (cap, sched') := match c.sched with
    | [] => (space, [])
    | k :: r => (max k 1, r)
  let k := min (min cap space) left
  let c' := { c with done := c.done + k, sched := sched' }
  let emitted := (c.total.drop c.done).take k
  if c'.done = c.total.length then (.streamEnd, emitted, c')
  else if k = 0 then (.noProgress, emitted, c')
  else (.pending, emitted, c')

/-- which loop: they differ in when the buffer is doubled -/
inductive Kind | deflate | bzip2 | xz
  deriving DecidableEq, Repr, Inhabited

structure LoopState where
  cap : Nat            -- `output_vec.len()`
  out : Bytes := []    -- `output_vec[..total_out]`
  comp : Comp
  deriving Repr, Inhabited

inductive LoopErr | noProgress | fuel
  deriving DecidableEq, Repr, Inhabited

/-- The encode loop. Fuel bounds the number of calls. -/
def encodeLoop (kind : Kind) : Nat → LoopState → Except LoopErr LoopState
  | 0, _ => .error .fuel
  | fuel + 1, st =>
    let space := st.cap - st.out.length
    let (status, emitted, comp') := st.comp.call space
    let st := { st with out := st.out ++ emitted, comp := comp' }
    match status with
    | .streamEnd => .ok st
    | .pending =>
      match kind with
      | .deflate => encodeLoop kind fuel { st with cap := st.cap * 2 }
      | .bzip2 | .xz =>
        -- repaired loops: grow only when the buffer is full
        encodeLoop kind fuel (if st.out.length = st.cap then { st with cap := st.cap * 2 } else st)
    | .noProgress =>
      match kind with
      | .deflate => .error .noProgress        -- `BufError` is reported as an error
      | .bzip2 | .xz => encodeLoop kind fuel { st with cap := st.cap * 2 }   -- `MemNeeded`: grow

/-- `CompressionCodecState::encode` for the three loop codecs: the buffer starts at 32 KiB (or
    keeps the size it reached on a previous block, `cap0 ≥ 1`). -/
def encode (kind : Kind) (cap0 : Nat) (c : Comp) : Except LoopErr Bytes :=
  match encodeLoop kind (2 * c.total.length + c.sched.length + 64) { cap := cap0, comp := c } with
  | .ok st => .ok st.out
  | .error e => .error e

end Avro.Impl.GrowLoop
