import AvroModel.Impl.De
import AvroModel.Impl.Ser
import AvroModel.Impl.Rabin
import AvroModel.Impl.SchemaParse
/-
`single_object_encoding.rs`: `C3 01`, the schema's 8-byte little-endian fingerprint, the datum.
-/
namespace Avro.Impl

def singleMarker : Bytes := [0xC3, 0x01]

/-- `to_single_object`: the two writes, then `to_datum` on the same writer. `fp` is
    `schema.rabin_fingerprint()`. -/
def toSingleObject (fp : Bytes) (datum : SerState → Except SerErr Unit × SerState) (s : SerState) :
    Except SerErr Unit × SerState :=
  match writeAll singleMarker s with
  | (.error e, s') => (.error e, s')
  | (.ok _, s') =>
    match writeAll fp s' with
    | (.error e, s'') => (.error e, s'')
    | (.ok _, s'') => datum s''

/-- `check_header` -/
def checkHeader (fp : Bytes) (header : Bytes) : Bool :=
  header.take 2 = singleMarker && (header.drop 2).take 8 = fp

/-- `from_single_object_slice` / `from_single_object_reader`: the slice must hold 10 bytes (else a
    custom error), the reader `read_exact`s them (else an I/O error); then the header check; then
    the datum deserializer on what follows. -/
def fromSingleObject {α} (fp : Bytes) (datum : RState → Except DeErr α × RState) (s : RState) :
    Except DeErr α × RState :=
  if s.isSlice then
    if s.rest.length < 10 then (.error .custom, s)
    else if !checkHeader fp (s.rest.take 10) then (.error .custom, s)
    else datum { s with rest := s.rest.drop 10 }
  else
    match readExact 10 s with
    | (.error e, s') => (.error e, s')
    | (.ok header, s') =>
      if !checkHeader fp header then (.error .custom, s') else datum s'

/-- the fingerprint stored at freeze time: CRC of the canonical form -/
def schemaFingerprint (S : SchemaMut) (fuel : Nat) : Except SchemaErr Bytes :=
  match canonicalForm S fuel with
  | .error e => .error e
  | .ok text => .ok (rabinFingerprint text.toUTF8.data.toList)

end Avro.Impl
