import AvroModel.Impl.Varint
import AvroModel.Impl.UnionLookup
import AvroModel.Impl.Serde
/-
Model of the datum serializer (`ser/**`): one arm per (serde call × node kind), the block
writer, the record reordering machine with its pooled buffers, sequences as bytes/fixed/
duration, and both decimal encoders.  DESIGN.md Appendix A.2–A.5.

State passing: `SerState` is the current writer (bytes written so far and, for a failing sink,
how many more bytes it accepts) together with the buffer pool of the `SerializerConfig`.
Every function returns the state also on error, because C14 is about the pool after failures.
-/
namespace Avro.Impl

open Avro

/-- Error classes. `panic` marks the sites where the Rust code would `panic!/assert!/unwrap`. -/
inductive SerErr | custom | io | panic
  deriving DecidableEq, Repr, Inhabited

/-- A `Vec<u8>` as far as the pool is concerned: contents and whether it owns an allocation. -/
structure Buffer where
  cap : Bool
  data : Bytes
  deriving DecidableEq, Repr, Inhabited

/-- A `Vec<Option<Vec<u8>>>`. -/
structure SuperBuffer where
  cap : Bool
  slots : List (Option Buffer)
  deriving DecidableEq, Repr, Inhabited

/-- `ser::Buffers`; the head of each list is the top of the stack (`Vec::pop`). -/
structure Pool where
  buffers : List Buffer := []
  superBuffers : List SuperBuffer := []
  deriving DecidableEq, Repr, Inhabited

/-- External parameters (DESIGN.md section 7): `f64 as f32` and `rust_decimal`. -/
structure Ext where
  asF32 : BitVec 64 → BitVec 32
  /-- `Decimal::from_f64` → (mantissa, scale) -/
  decFromF64 : BitVec 64 → Option (Int × Nat)
  /-- `str::parse::<Decimal>` -/
  decParse : String → Option (Int × Nat)
  /-- `Decimal::rescale` -/
  decRescale : Int × Nat → Nat → Int × Nat

structure SerState where
  out : Bytes := []
  /-- `none`: the writer never fails (a `Vec`); `some r`: the sink accepts `r` more bytes. -/
  budget : Option Nat := none
  pool : Pool := {}
  deriving Repr, Inhabited

abbrev SerM (α : Type) := SerState → Except SerErr α × SerState

instance : Monad SerM where
  pure a := fun s => (.ok a, s)
  bind m f := fun s =>
    match m s with
    | (.ok a, s') => f a s'
    | (.error e, s') => (.error e, s')

def SerM.fail {α} (e : SerErr) : SerM α := fun s => (.error e, s)

/-- Run `m`, then `fin` whatever the outcome (a Rust `Drop`). -/
def SerM.finally {α} (m : SerM α) (fin : SerM Unit) : SerM α := fun s =>
  match m s with
  | (r, s') =>
    match fin s' with
    | (.ok _, s'') => (r, s'')
    | (.error e, s'') => (.error e, s'')

def getPool : SerM Pool := fun s => (.ok s.pool, s)
def setPool (p : Pool) : SerM Unit := fun s => (.ok (), { s with pool := p })

/-- `Write::write_all` on the current writer. -/
def writeAll (bs : Bytes) : SerM Unit := fun s =>
  match s.budget with
  | none => (.ok (), { s with out := s.out ++ bs })
  | some r =>
    if bs.length ≤ r then (.ok (), { s with out := s.out ++ bs, budget := some (r - bs.length) })
    else (.error .io, { s with out := s.out ++ bs.take r, budget := some 0 })

def writeVarI64 (i : Int) : SerM Unit := writeAll (encodeVarI64 i)

/-- `SerializerState::write_length_delimited`. -/
def writeLengthDelimited (bs : Bytes) : SerM Unit := do
  writeVarI64 bs.length
  writeAll bs

/-- `String::as_bytes`. -/
def strBytes (s : String) : Bytes := s.toUTF8.data.toList

/-- `i128::to_be_bytes`. -/
def i128be (n : Int) : Bytes := beBytes 16 (n % (2 : Int) ^ 128).toNat

def inI128 (n : Int) : Bool := decide (-(2 : Int) ^ 127 ≤ n ∧ n < (2 : Int) ^ 127)

/-! ### Union lookups -/

def branchNodes (S : Schema) (vs : List Nat) : List Node := vs.map fun k => S[k]?.getD .null

/-- `serialize_union_unnamed`: on a union node pick the branch for `key`, write its discriminant
    and continue with `f` on the branch; on any other node `f` runs on the node itself. -/
def viaUnion {α} (S : Schema) (node : Node) (key : LookupKey) (f : Node → SerM α) : SerM α :=
  match node with
  | .union vs =>
    match unnamedLookup key (branchNodes S vs) with
    | none => SerM.fail .custom
    | some d => do
      writeVarI64 d
      match vs[d]? with
      | none => SerM.fail .panic
      | some k => match S[k]? with
        | none => SerM.fail .panic
        | some n => f n
  | n => f n

/-- `serialize_lookup_union_variant_by_name`. -/
def viaName {α} (S : Schema) (node : Node) (name : String) (f : Node → SerM α) : SerM α :=
  match node with
  | .union vs =>
    match namedLookup name (branchNodes S vs) with
    | none => f node
    | some d => do
      writeVarI64 d
      match vs[d]? with
      | none => SerM.fail .panic
      | some k => match S[k]? with
        | none => SerM.fail .panic
        | some n => f n
  | n => f n

/-! ### Decimals -/

/-- `can_truncate_without_altering_number` (`decimal.rs`). -/
def canTruncate (buf : Bytes) : Nat :=
  match buf with
  | [] => 0
  | b0 :: _ =>
    let fill : UInt8 := if b0.toNat &&& 0x80 = 0 then 0x00 else 0xFF
    let t := (buf.takeWhile (· = fill)).length
    if t ≠ 0 then
      match buf[t]? with
      | none => t - 1
      | some v => if (v.toNat &&& 0x80 = 0) = (b0.toNat &&& 0x80 = 0) then t else t - 1
    else t

inductive DecimalMode
  | big
  | regular (scale : Nat) (repr : DecimalRepr)

/-- `decimal::serialize` on a `rust_decimal` value given as (mantissa, scale). -/
def serDecimal (ext : Ext) (mode : DecimalMode) (d : Int × Nat) : SerM Unit := do
  let (d, scaleToWrite) ← (match mode with
    | .regular scale _ =>
      let d' := ext.decRescale d scale
      if d'.2 ≠ scale then SerM.fail .custom else pure (d', ([] : Bytes))
    | .big => pure (d, encodeVarI64 d.2) : SerM ((Int × Nat) × Bytes))
  let buf := i128be d.1
  let start ← (match mode with
    | .big => do
      let start := canTruncate buf
      let len := 16 - start
      let lenBuf := encodeVarI64 len
      writeVarI64 (lenBuf.length + len + scaleToWrite.length)
      writeAll lenBuf
      pure start
    | .regular _ .bytes => do
      let start := canTruncate buf
      writeVarI64 (16 - start)
      pure start
    | .regular _ (.fixed _ size) =>
      if size ≤ 16 then
        let start := 16 - size
        if size ≥ 1 then
          if canTruncate (buf.take (start + 1)) < start then SerM.fail .custom else pure start
        else
          if d.1 ≠ 0 then SerM.fail .custom else pure start
      else do
        let byte : UInt8 := if (buf.headD 0).toNat &&& 0x80 = 0 then 0x00 else 0xFF
        -- one `write_all` per padding byte
        (List.replicate (size - 16) byte).forM fun b => writeAll [b]
        pure 0 : SerM Nat)
  writeAll (buf.drop start)
  if scaleToWrite ≠ [] then writeAll scaleToWrite

/-- Number of leading zero bytes that can be dropped while the sign bit of the remainder stays
    clear; at least one byte is kept. -/
def stripZeros : Bytes → Nat
  | b0 :: b1 :: rest =>
    if b0 = 0 ∧ b1.toNat &&& 0x80 = 0 then 1 + stripZeros (b1 :: rest) else 0
  | _ => 0

/-- `std::str::from_utf8(v).is_ok()` -/
def validUtf8 (b : Bytes) : Bool := (String.fromUTF8? (ByteArray.mk b.toArray)).isSome

/-- Integers presented to a decimal node: the hand-rolled encoder inside `serialize_integer`. -/
def serIntegerAsDecimal (scale : Nat) (repr : DecimalRepr) (v : Int) : SerM Unit :=
  if !inI128 v then SerM.fail .custom else
  -- `10i128.checked_pow(scale).and_then(|pow| n.checked_mul(pow))`
  let pow : Int := (10 : Int) ^ scale
  if !inI128 pow then SerM.fail .custom else
  let n := v * pow
  if !inI128 n then SerM.fail .custom else
  let bytes := i128be n
  match repr with
  | .bytes => do
    -- `while start < len - 1 && bytes[start] == 0 && bytes[start + 1] & 0x80 == 0 { start += 1 }`
    let start := stripZeros bytes
    let buf := bytes.drop start
    writeVarI64 buf.length
    writeAll buf
  | .fixed _ size =>
    if size ≤ 16 then
      let start := 16 - size
      let signByte : UInt8 := if n < 0 then 0xFF else 0x00
      let fits := (bytes.take start).all (· = signByte) &&
        (match bytes[start]? with
          | none => decide (n = 0)
          | some b => decide ((b.toNat &&& 0x80 ≠ 0) = (n < 0)))
      if fits then writeAll (bytes.drop start) else SerM.fail .custom
    else SerM.fail .custom

/-! ### Leaf serializer calls -/

def serBool (S : Schema) (node : Node) (b : Bool) : SerM Unit :=
  viaUnion S node .boolean fun
    | .boolean => writeAll [if b then 1 else 0]
    | _ => SerM.fail .custom

def integerKey (t : IntTy) : LookupKey :=
  match t.sizeOf with
  | 4 => .integer4
  | 8 => .integer8
  | _ => .integer

/-- `serialize_integer`. -/
def serInteger (S : Schema) (node : Node) (t : IntTy) (v : Int) : SerM Unit :=
  viaUnion S node (integerKey t) fun
    | .int | .date | .timeMillis =>
      if -2147483648 ≤ v ∧ v ≤ 2147483647 then writeVarI64 v else SerM.fail .custom
    | .long | .timestampMillis | .timestampMicros | .timeMicros =>
      if -9223372036854775808 ≤ v ∧ v ≤ 9223372036854775807 then writeVarI64 v else SerM.fail .custom
    | .decimal scale _ repr => serIntegerAsDecimal scale repr v
    | .enum _ symbols =>
      if 0 ≤ v ∧ v < symbols.length then writeVarI64 v else SerM.fail .custom
    | _ => SerM.fail .custom

def serF32 (S : Schema) (node : Node) (bits : BitVec 32) : SerM Unit :=
  viaUnion S node .float4 fun
    | .float => writeAll (leBytes 4 bits.toNat)
    | _ => SerM.fail .custom

def serF64 (ext : Ext) (S : Schema) (node : Node) (bits : BitVec 64) : SerM Unit :=
  viaUnion S node .float8 fun
    | .double => writeAll (leBytes 8 bits.toNat)
    | .float => writeAll (leBytes 4 (ext.asF32 bits).toNat)
    | .decimal scale _ repr =>
      match ext.decFromF64 bits with
      | none => SerM.fail .custom
      | some d => serDecimal ext (.regular scale repr) d
    | .bigDecimal =>
      match ext.decFromF64 bits with
      | none => SerM.fail .custom
      | some d => serDecimal ext .big d
    | _ => SerM.fail .custom

/-- `HashMap` built by `collect()` over `(symbol, index)`: the last occurrence wins. -/
def lookupLast (xs : List String) (name : String) : Option Nat :=
  let rec go : List String → Nat → Option Nat → Option Nat
    | [], _, acc => acc
    | x :: rest, i, acc => go rest (i + 1) (if x = name then some i else acc)
  go xs 0 none

/-- `serialize_str` on a non-union node. -/
def serStrAt (ext : Ext) (node : Node) (s : String) : SerM Unit :=
  match node with
  | .string | .bytes | .uuid => writeLengthDelimited (strBytes s)
  | .enum _ symbols =>
    match lookupLast symbols s with
    | none => SerM.fail .custom
    | some d => writeVarI64 d
  | .fixed _ size =>
    if size ≠ (strBytes s).length then SerM.fail .custom else writeAll (strBytes s)
  | .decimal scale _ repr =>
    match ext.decParse s with
    | none => SerM.fail .custom
    | some d => serDecimal ext (.regular scale repr) d
  | .bigDecimal =>
    match ext.decParse s with
    | none => SerM.fail .custom
    | some d => serDecimal ext .big d
  | _ => SerM.fail .custom

def serStr (ext : Ext) (S : Schema) (node : Node) (s : String) : SerM Unit :=
  viaUnion S node .str fun n => serStrAt ext n s

def serBytes (S : Schema) (node : Node) (b : Bytes) : SerM Unit :=
  viaUnion S node .sliceU8 fun
    | .bytes => writeLengthDelimited b
    | .string => if validUtf8 b then writeLengthDelimited b else SerM.fail .custom
    | .fixed _ size => if size ≠ b.length then SerM.fail .custom else writeAll b
    | .duration => if b.length ≠ 12 then SerM.fail .custom else writeAll b
    | _ => SerM.fail .custom

def serUnit (S : Schema) (node : Node) : SerM Unit :=
  match node with
  | .null => pure ()
  | .union vs =>
    match unnamedLookup .null (branchNodes S vs) with
    | none => SerM.fail .custom
    | some d => writeVarI64 d
  | _ => SerM.fail .custom

def serUnitStruct (ext : Ext) (S : Schema) (node : Node) (name : String) : SerM Unit :=
  viaUnion S node .unitStruct fun
    | .null => pure ()
    | n@(.string) | n@(.bytes) | n@(.enum _ _) => serStrAt ext n name
    | _ => SerM.fail .custom

/-- On a union, the `Null` unit variant selects the null branch by name — unless the branch
    that type-directed selection would pick is an enum with a `Null` symbol (repair of D12). -/
def nullVariantBranch (S : Schema) (vs : List Nat) (variant : String) : Option Nat :=
  if variant = "Null" then
    match namedLookup "Null" (branchNodes S vs) with
    | some d =>
      match (vs[d]?).bind (S[·]?) with
      | some .null =>
        let isEnumSymbol := match unnamedLookup .unitVariant (branchNodes S vs) with
          | some e => (match (vs[e]?).bind (S[·]?) with
            | some (.enum _ syms) => syms.contains "Null"
            | _ => false)
          | none => false
        if isEnumSymbol then none else some d
      | _ => none
    | none => none
  else none

def serUnitVariantAt (ext : Ext) (variant : String) : Node → SerM Unit
  | .null => if variant = "Null" then pure () else SerM.fail .custom
  | n@(.string) | n@(.bytes) | n@(.enum _ _) => serStrAt ext n variant
  | _ => SerM.fail .custom

def serUnitVariant (ext : Ext) (S : Schema) (node : Node) (variant : String) : SerM Unit :=
  match node with
  | .union vs =>
    match nullVariantBranch S vs variant with
    | some d => writeVarI64 d
    | none => viaUnion S node .unitVariant (serUnitVariantAt ext variant)
  | _ => viaUnion S node .unitVariant (serUnitVariantAt ext variant)

/-! ### Sequences as bytes / fixed / duration: element extractors -/

/-- `ExtractU8Serializer`. -/
def extractU8 : SV → Option UInt8
  | .int t v => if t.inRange v ∧ 0 ≤ v ∧ v ≤ 255 then some (UInt8.ofNat v.toNat) else none
  | _ => none

/-- `ExtractU32ForDuration`. -/
def extractU32 : SV → Option Nat
  | .int .u32 v => if 0 ≤ v ∧ v < 4294967296 then some v.toNat else none
  | _ => none

def durationFieldIdx (s : String) : Option Nat :=
  if s = "months" then some 0 else if s = "days" then some 1
  else if s = "milliseconds" then some 2 else none

/-- `ExtractFieldNameForDuration` / `FindFieldIndexSerializer`: only `serialize_str` is accepted. -/
def keyStr : SV → Option String
  | .str s => some s
  | _ => none

/-! ### Block writer -/

/-- `BlockWriter::new`. Returns `current_block_len`. -/
def blockNew (minLen : Nat) : SerM Nat := do
  if minLen > 0 then writeVarI64 minLen
  pure minLen

/-- `BlockWriter::signal_next_record`. -/
def blockSignal (current : Nat) : SerM Nat :=
  match current with
  | 0 => do writeVarI64 1; pure 0
  | n + 1 => pure n

/-- `BlockWriter::end`. -/
def blockEnd (current : Nat) : SerM Unit :=
  if current ≠ 0 then SerM.fail .custom else writeVarI64 0

/-! ### Pool operations -/

/-- `field_reordering_buffers.pop()` with its `assert!(v.is_empty())`, or a fresh `Vec::new()`. -/
def popBuffer : SerM Buffer := fun s =>
  match s.pool.buffers with
  | [] => (.ok { cap := false, data := [] }, s)
  | b :: rest =>
    if b.data ≠ [] then (.error .panic, { s with pool := { s.pool with buffers := rest } })
    else (.ok b, { s with pool := { s.pool with buffers := rest } })

def pushBuffer (b : Buffer) : SerM Unit := fun s =>
  (.ok (), { s with pool := { s.pool with buffers := b :: s.pool.buffers } })

def popSuperBuffer : SerM SuperBuffer := fun s =>
  match s.pool.superBuffers with
  | [] => (.ok { cap := false, slots := [] }, s)
  | b :: rest =>
    if b.slots ≠ [] then (.error .panic, { s with pool := { s.pool with superBuffers := rest } })
    else (.ok b, { s with pool := { s.pool with superBuffers := rest } })

def pushSuperBuffer (b : SuperBuffer) : SerM Unit := fun s =>
  (.ok (), { s with pool := { s.pool with superBuffers := b :: s.pool.superBuffers } })

/-- Run `m` with the writer replaced by the (empty) side buffer `buf`; returns what was written.
    On error the partially written buffer is dropped. The pool is shared. -/
def intoBuffer (buf : Buffer) (m : SerM Unit) : SerM Buffer := fun s =>
  match m { s with out := buf.data, budget := none } with
  | (.ok _, s') =>
    (.ok { cap := buf.cap || !s'.out.isEmpty, data := s'.out },
      { s' with out := s.out, budget := s.budget })
  | (.error e, s') => (.error e, { s' with out := s.out, budget := s.budget })

/-! ### Record reordering machine -/

structure RecordState where
  current : Nat
  buffers : SuperBuffer
  deriving Repr, Inhabited

/-- `field_idx`. -/
def fieldIdx (fields : List (String × Nat)) (rs : RecordState) (name : String) :
    Except SerErr Nat :=
  match fields[rs.current]? with
  | none => .error .custom
  | some first =>
    if first.1 = name then .ok rs.current
    else
      match lookupLast (fields.map (·.1)) name with
      | none => .error .custom
      | some i =>
        if i > rs.current then .ok i
        else if i < rs.current then .error .custom
        else .error .panic

/-- Computations that own a piece of compound state `σ` which must survive an error so that
    the Rust `Drop` can be run on it. -/
abbrev TrM (σ α : Type) := SerState → Except (SerErr × σ) α × SerState

def TrM.lift {σ α} (k : σ) (m : SerM α) : TrM σ α := fun s =>
  match m s with
  | (.ok a, s') => (.ok a, s')
  | (.error e, s') => (.error (e, k), s')

/-- The `while let Some(buf) = buffers.get_mut(current).and_then(Option::take)` flush loop.
    `fuel` bounds the iterations by the number of slots (each iteration advances `current`).
    On an I/O error the taken buffer is dropped, not pooled, and the slot stays emptied. -/
def flushBuffered : Nat → RecordState → TrM RecordState RecordState
  | 0, rs, s => (.ok rs, s)
  | fuel + 1, rs, s =>
    match rs.buffers.slots[rs.current]? with
    | some (some b) =>
      let rs' : RecordState :=
        { rs with buffers := { rs.buffers with slots := rs.buffers.slots.set rs.current none } }
      match writeAll b.data s with
      | (.error e, s') => (.error (e, rs'), s')
      | (.ok _, s') =>
        match pushBuffer { b with data := [] } s' with
        | (_, s'') => flushBuffered fuel { rs' with current := rs'.current + 1 } s''
    | _ => (.ok rs, s)

def listResize {α} (l : List α) (n : Nat) (a : α) : List α :=
  if l.length ≥ n then l.take n else l ++ List.replicate (n - l.length) a

/-- `KindRecord::drop`. -/
def recordDrop (rs : RecordState) : SerM Unit :=
  if rs.buffers.cap then do
    let p ← getPool
    let cleared := rs.buffers.slots.filterMap fun o => o.map fun b => { b with data := [] }
    -- `Vec::extend` appends: in stack terms the last extended element is the new top
    setPool { p with buffers := cleared.reverse ++ p.buffers }
    pushSuperBuffer { cap := true, slots := [] }
  else pure ()

/-! ### The serializer proper -/

/-- Kinds of compound state, decided when `serialize_seq` & co. are called. -/
inductive SeqKind
  | array (items : Node) (current : Nat)
  | duration (n : Nat)
  | buffered (buf : Buffer)
  | fixed (expected : Nat)

inductive StructKind
  | record (fields : List (String × Nat)) (rs : RecordState)
  | map (values : Node) (current : Nat)
  | duration (values : List (Option Nat))

def nodeAt (S : Schema) (k : Nat) : SerM Node :=
  match S[k]? with
  | some n => pure n
  | none => SerM.fail .panic

/-- `serialize_seq` on a non-union node: build the sequence state. -/
def seqStartAt (allowSlow : Bool) (S : Schema) (node : Node) (len : Option Nat) : SerM SeqKind :=
  match node with
  | .array items => do
    let n ← nodeAt S items
    let c ← blockNew (len.getD 0)
    pure (.array n c)
  | .duration =>
    match len with
    | some l => if l ≠ 3 then SerM.fail .custom else pure (.duration 0)
    | none => pure (.duration 0)
  | .bytes =>
    if !allowSlow then SerM.fail .custom else
    match len with
    | none => do let b ← popBuffer; pure (.buffered b)
    | some l => do writeVarI64 l; pure (.fixed l)
  | .fixed _ size =>
    if !allowSlow then SerM.fail .custom else
    match len with
    | some l => if l ≠ size then SerM.fail .custom else pure (.fixed size)
    | none => pure (.fixed size)
  | _ => SerM.fail .custom

def seqStart (allowSlow : Bool) (S : Schema) (node : Node) (len : Option Nat) : SerM SeqKind :=
  viaUnion S node .seqOrTuple fun n => seqStartAt allowSlow S n len

/-- `SerializeSeq::end`. -/
def seqEnd : SeqKind → SerM Unit
  | .array _ current => blockEnd current
  | .duration n => if n ≠ 3 then SerM.fail .custom else pure ()
  | .buffered buf => writeLengthDelimited buf.data
  | .fixed expected => if expected ≠ 0 then SerM.fail .custom else pure ()

/-- `Drop for SerializeSeqOrTupleOrTupleStruct`. -/
def seqDrop : SeqKind → SerM Unit
  | .buffered buf => if buf.cap then pushBuffer { buf with data := [] } else pure ()
  | _ => pure ()

/-- `serialize_struct_or_struct_variant` after the by-name lookup, and `serialize_map`,
    on a non-union node. `len` is the advertised length (`usize`, or `len.unwrap_or(0)` for maps);
    `durLen` is the value the duration arm compares with 3 (`None` for `serialize_map(None)`). -/
def structStartAt (S : Schema) (node : Node) (len : Nat) (durLen : Option Nat) : SerM StructKind :=
  match node with
  | .record _ fields => do
    let sb ← popSuperBuffer
    pure (.record fields { current := 0, buffers := sb })
  | .map values => do
    let n ← nodeAt S values
    let c ← blockNew len
    pure (.map n c)
  | .duration =>
    match durLen with
    | some l => if l ≠ 3 then SerM.fail .custom else pure (.duration [none, none, none])
    | none => pure (.duration [none, none, none])
  | _ => SerM.fail .custom

def structDrop : StructKind → SerM Unit
  | .record _ rs => recordDrop rs
  | _ => pure ()

/-- `end` of the record kind: fill omitted nullable fields, flush, detect missing fields.
    `fuel` bounds the outer loop by the number of fields.  `current_idx` is a local copy in the
    Rust code, `buffers` is mutated in place. -/
def recordEnd (S : Schema) (fields : List (String × Nat)) : Nat → RecordState → TrM RecordState RecordState
  | 0, rs, s => (.ok rs, s)
  | fuel + 1, rs, s =>
    match fields[rs.current]? with
    | none => (.ok rs, s)
    | some f =>
      let fill : SerM Unit := do
        let n ← nodeAt S f.2
        match n with
        | .null => pure ()
        | .union vs =>
          match unnamedLookup .null (branchNodes S vs) with
          | some d =>
            match (branchNodes S vs)[d]? with
            | some .null => writeVarI64 d
            | _ => SerM.fail .custom
          | none => SerM.fail .custom
        | _ => SerM.fail .custom
      match fill s with
      | (.error e, s') => (.error (e, rs), s')
      | (.ok _, s') =>
        match flushBuffered rs.buffers.slots.length { rs with current := rs.current + 1 } s' with
        | (.error e, s'') => (.error e, s'')
        | (.ok rs', s'') => recordEnd S fields fuel rs' s''

/-- `SerializeStruct::end` / `SerializeMap::end`. -/
def structEnd (S : Schema) : StructKind → TrM StructKind StructKind
  | .record fields rs, s =>
    match recordEnd S fields (fields.length + 1) rs s with
    | (.error (e, rs'), s') => (.error (e, .record fields rs'), s')
    | (.ok rs', s') =>
      if rs'.current < fields.length then (.error (.panic, .record fields rs'), s')
      else
      -- `buffers.clear()`
      (.ok (.record fields { rs' with buffers := { rs'.buffers with slots := [] } }), s')
  | k@(.map _ current), s => TrM.lift k (do blockEnd current; pure k) s
  | k@(.duration vals), s =>
    match vals with
    | [some a, some b, some c] =>
      TrM.lift k (do writeAll (leBytes 4 a ++ leBytes 4 b ++ leBytes 4 c); pure k) s
    | _ => (.error (.custom, k), s)

/-- `end()` followed by `Drop`. -/
def structFinish (S : Schema) (k : StructKind) : SerM Unit := fun s =>
  match structEnd S k s with
  | (.ok k', s') => SerM.finally (pure ()) (structDrop k') s'
  | (.error (e, k'), s') => SerM.finally (SerM.fail e) (structDrop k') s'

/-- One record value at field index `idx` (`serialize_record_value`); `serv` is
    `value.serialize(DatumSerializer { schema_node, .. })`. -/
def recordValue (S : Schema) (fields : List (String × Nat))
    (rs : RecordState) (idx : Nat) (serv : Node → SerM Unit) : TrM RecordState RecordState :=
  fun s =>
  match fields[idx]? with
  | none => (.error (.panic, rs), s)
  | some f =>
    match S[f.2]? with
    | none => (.error (.panic, rs), s)
    | some node =>
      if idx = rs.current then
        match serv node s with
        | (.error e, s') => (.error (e, rs), s')
        | (.ok _, s') =>
          -- the flush loop mutates `record_state` in place, also when a write fails midway
          flushBuffered rs.buffers.slots.length { rs with current := rs.current + 1 } s'
      else
        let slots := if rs.buffers.slots.length ≤ idx
          then listResize rs.buffers.slots (idx + 1) none else rs.buffers.slots
        let rs : RecordState := { rs with buffers := { cap := true, slots := slots } }
        match slots[idx]? with
        | some (some _) => (.error (.custom, rs), s)
        | _ =>
          match popBuffer s with
          | (.error e, s') => (.error (e, rs), s')
          | (.ok buf, s') =>
            match intoBuffer buf (serv node) s' with
            | (.error e, s'') => (.error (e, rs), s'')
            | (.ok b, s'') =>
              (.ok { rs with buffers := { rs.buffers with slots := slots.set idx (some b) } }, s'')

/-- After the elements: `end`, then the `Drop` of the sequence serializer whatever the outcome. -/
def seqFinish (r : Except (SerErr × SeqKind) SeqKind × SerState) : Except SerErr Unit × SerState :=
  match r with
  | (.ok k', s') => SerM.finally (seqEnd k') (seqDrop k') s'
  | (.error (e, k'), s') => SerM.finally (SerM.fail e) (seqDrop k') s'

/-- After the fields/entries: `end`, then the `Drop` of the compound serializer. -/
def structBodyFinish (S : Schema) (r : Except (SerErr × StructKind) StructKind × SerState) :
    Except SerErr Unit × SerState :=
  match r with
  | (.ok k', s') => structFinish S k' s'
  | (.error (e, k'), s') => SerM.finally (SerM.fail e) (structDrop k') s'

mutual

/-- `value.serialize(DatumSerializer { state, schema_node })`. -/
def ser (ext : Ext) (allowSlow : Bool) (S : Schema) (node : Node) : SV → SerM Unit
  | .bool b => serBool S node b
  | .int t v => serInteger S node t v
  | .f32 bits => serF32 S node bits
  | .f64 bits => serF64 ext S node bits
  | .char c => serStr ext S node (String.singleton c)
  | .str s => serStr ext S node s
  | .bytes b => serBytes S node b
  | .none => serUnit S node
  | .some v => ser ext allowSlow S node v
  | .unit => serUnit S node
  | .unitStruct name => serUnitStruct ext S node name
  | .unitVariant _ _ variant => serUnitVariant ext S node variant
  | .newtypeStruct name v => viaName S node name fun n => ser ext allowSlow S n v
  | .newtypeVariant _ _ variant v => viaName S node variant fun n => ser ext allowSlow S n v
  | .seq len elems => do
    let k ← seqStart allowSlow S node len
    fun s => seqFinish (serElems ext allowSlow S k elems s)
  | .tuple elems => do
    let k ← seqStart allowSlow S node (some elems.length)
    fun s => seqFinish (serElems ext allowSlow S k elems s)
  | .tupleStruct _ elems => do
    let k ← seqStart allowSlow S node (some elems.length)
    fun s => seqFinish (serElems ext allowSlow S k elems s)
  | .tupleVariant _ _ variant elems =>
    viaName S node variant fun n => do
      let k ← seqStart allowSlow S n (some elems.length)
      fun s => seqFinish (serElems ext allowSlow S k elems s)
  | .map len entries =>
    viaUnion S node .structOrMap fun n => do
      let k ← structStartAt S n (len.getD 0) len
      fun s => structBodyFinish S (serEntries ext allowSlow S k entries s)
  | .struct name fields =>
    viaName S node name fun n =>
      viaUnion S n .structOrMap fun n => do
        let k ← structStartAt S n fields.length (some fields.length)
        fun s => structBodyFinish S (serFields ext allowSlow S k fields s)
  | .structVariant _ _ variant fields =>
    viaName S node variant fun n =>
      viaUnion S n .structOrMap fun n => do
        let k ← structStartAt S n fields.length (some fields.length)
        fun s => structBodyFinish S (serFields ext allowSlow S k fields s)

/-- Elements of a sequence, threading the sequence state. -/
def serElems (ext : Ext) (allowSlow : Bool) (S : Schema) : SeqKind → List SV → TrM SeqKind SeqKind
  | k, [], s => (.ok k, s)
  | k, e :: rest, s =>
    match k with
    | .array items current =>
      match blockSignal current s with
      | (.error err, s') => (.error (err, k), s')
      | (.ok c, s') =>
        match ser ext allowSlow S items e s' with
        | (.error err, s'') => (.error (err, .array items c), s'')
        | (.ok _, s'') => serElems ext allowSlow S (.array items c) rest s''
    | .duration n =>
      if n ≥ 3 then (.error (.custom, k), s) else
      match extractU32 e with
      | none => (.error (.custom, k), s)
      | some v =>
        match writeAll (leBytes 4 v) s with
        | (.error err, s') => (.error (err, k), s')
        | (.ok _, s') => serElems ext allowSlow S (.duration (n + 1)) rest s'
    | .buffered buf =>
      match extractU8 e with
      | none => (.error (.custom, k), s)
      | some b => serElems ext allowSlow S (.buffered { cap := true, data := buf.data ++ [b] }) rest s
    | .fixed expected =>
      match expected with
      | 0 => (.error (.custom, k), s)
      | n + 1 =>
        match extractU8 e with
        | none => (.error (.custom, .fixed n), s)
        | some b =>
          match writeAll [b] s with
          | (.error err, s') => (.error (err, .fixed n), s')
          | (.ok _, s') => serElems ext allowSlow S (.fixed n) rest s'

/-- Struct-presented fields. Errors carry the compound state so `Drop` can run on it. -/
def serFields (ext : Ext) (allowSlow : Bool) (S : Schema) :
    StructKind → List (String × SV) → TrM StructKind StructKind
  | k, [], s => (.ok k, s)
  | k, (name, v) :: rest, s =>
    match k with
    | .record fields rs =>
      match fieldIdx fields rs name with
      | .error e => (.error (e, k), s)
      | .ok idx =>
        match recordValue S fields rs idx (fun node => ser ext allowSlow S node v) s with
        | (.error (e, rs'), s') => (.error (e, .record fields rs'), s')
        | (.ok rs', s') => serFields ext allowSlow S (.record fields rs') rest s'
    | .map values current =>
      match (do let c ← blockSignal current; writeLengthDelimited (strBytes name); pure c : SerM Nat) s with
      | (.error e, s') => (.error (e, k), s')
      | (.ok c, s') =>
        match ser ext allowSlow S values v s' with
        | (.error e, s'') => (.error (e, .map values c), s'')
        | (.ok _, s'') => serFields ext allowSlow S (.map values c) rest s''
    | .duration vals =>
      match durationFieldIdx name with
      | none => (.error (.custom, k), s)
      | some i =>
        match vals[i]? with
        | some (some _) => (.error (.custom, k), s)
        | _ =>
          match extractU32 v with
          | none => (.error (.custom, k), s)
          | some x => serFields ext allowSlow S (.duration (vals.set i (some x))) rest s

/-- Map-presented entries (`serialize_entry`, or `serialize_key` + `serialize_value`). -/
def serEntries (ext : Ext) (allowSlow : Bool) (S : Schema) :
    StructKind → List (SV × SV) → TrM StructKind StructKind
  | k, [], s => (.ok k, s)
  | k, (key, v) :: rest, s =>
    match k with
    | .record fields rs =>
      match keyStr key with
      | none => (.error (.custom, k), s)
      | some name =>
        match fieldIdx fields rs name with
        | .error e => (.error (e, k), s)
        | .ok idx =>
          match recordValue S fields rs idx (fun node => ser ext allowSlow S node v) s with
          | (.error (e, rs'), s') => (.error (e, .record fields rs'), s')
          | (.ok rs', s') => serEntries ext allowSlow S (.record fields rs') rest s'
    | .map values current =>
      match blockSignal current s with
      | (.error e, s') => (.error (e, k), s')
      | (.ok c, s') =>
        -- the key goes through the full datum serializer on a `String` node
        match ser ext allowSlow S .string key s' with
        | (.error e, s'') => (.error (e, .map values c), s'')
        | (.ok _, s'') =>
          match ser ext allowSlow S values v s'' with
          | (.error e, s3) => (.error (e, .map values c), s3)
          | (.ok _, s3) => serEntries ext allowSlow S (.map values c) rest s3
    | .duration vals =>
      match keyStr key with
      | none => (.error (.custom, k), s)
      | some name =>
        match durationFieldIdx name with
        | none => (.error (.custom, k), s)
        | some i =>
          match vals[i]? with
          | some (some _) => (.error (.custom, k), s)
          | _ =>
            match extractU32 v with
            | none => (.error (.custom, k), s)
            | some x => serEntries ext allowSlow S (.duration (vals.set i (some x))) rest s

end

end Avro.Impl
