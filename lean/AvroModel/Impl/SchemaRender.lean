import AvroModel.Impl.SchemaParse
/-
`schema/safe/serialize.rs`: regeneration of the schema JSON from the node graph (named types
written once then by reference, namespace-relative spelling, generation-counter cycle guard),
and `TryFrom<SchemaMut> for Schema` (`freeze`).
The output is a JSON *value* with ordered members; `serde_json::to_string` of it is a parameter.
-/
namespace Avro.Impl

/-- `node_traversal_state` (one generation cell per node) and `n_written_names`. -/
structure RenderState where
  gen : List (Nat × Nat) := []     -- sparse: node index ↦ generation (absent = 0)
  nWritten : Nat := 1
  deriving Repr, Inhabited

def RenderState.get (st : RenderState) (i : Nat) : Nat := (st.gen.lookup i).getD 0
def RenderState.set (st : RenderState) (i v : Nat) : RenderState :=
  { st with gen := (i, v) :: st.gen.filter (·.1 ≠ i) }

/-- `serialize_type_and_logical_type` members -/
def typeMembers (type : String) (l : Option LogicalType) : List (String × Json) :=
  match l with
  | none => [("type", .str type)]
  | some lt =>
    let name := match lt with
      | .decimal _ _ => "decimal" | .uuid => "uuid" | .date => "date"
      | .timeMillis => "time-millis" | .timeMicros => "time-micros"
      | .timestampMillis => "timestamp-millis" | .timestampMicros => "timestamp-micros"
      | .duration => "duration" | .bigDecimal => "big-decimal" | .unknown n => n
    [("logicalType", .str name), ("type", .str type)] ++
      (match lt with
        | .decimal scale precision => [("scale", .nat scale), ("precision", .nat precision)]
        | _ => [])

/-- `serialize_name` -/
def nameMembers (parentNs : Option String) (name : Name) : List (String × Json) :=
  if parentNs = name.ns then [("name", .str name.short)]
  else if name.ns.isNone then [("namespace", .str ""), ("name", .str name.short)]
  else [("name", .str name.fq)]

/-- `str_for_ref` before the repair of D20: a bare short name even when it is a type keyword
    (kept for the negation witness `C09_ref_keyword_corner`). -/
def refStringOld (parentNs : Option String) (name : Name) : String :=
  if parentNs = name.ns then name.short
  else if name.ns.isNone then "." ++ name.fq
  else name.fq

/-- `str_for_ref`: the bare short name when the namespaces agree and the name is not one of the
    thirteen type names (which the parser would read as that type); otherwise a dotted spelling. -/
def refString (parentNs : Option String) (name : Name) : String :=
  if parentNs = name.ns ∧ (RawType.ofString name.short).isNone then name.short
  else if name.ns.isNone then "." ++ name.fq
  else name.fq

mutual

/-- `impl Serialize for SerializeSchema<SchemaKey>` -/
def render (S : SchemaMut) : Nat → Nat → Option String → RenderState → Except SchemaErr (Json × RenderState)
  | 0, _, _, _ => .error .panic
  | fuel + 1, key, parentNs, st =>
    match S[key]? with
    | none => .error .custom
    | some node =>
      let prim (t : String) : Except SchemaErr (Json × RenderState) :=
        match node.logical with
        | none => .ok (.str t, st)
        | some _ => .ok (.obj (typeMembers t node.logical), st)
      -- `no_cycle_guard`
      let guarded (body : RenderState → Except SchemaErr (Json × RenderState)) :
          Except SchemaErr (Json × RenderState) :=
        let prev := st.get key
        if prev ≥ st.nWritten then .error .custom
        else
          match body (st.set key st.nWritten) with
          | .error e => .error e
          | .ok (j, st') => .ok (j, st'.set key 0)      -- `release`
      -- `should_write_as_ref`
      let named (name : Name) (full : RenderState → Except SchemaErr (Json × RenderState)) :
          Except SchemaErr (Json × RenderState) :=
        if st.get key > 0 then .ok (.str (refString parentNs name), st)
        else full { (st.set key st.nWritten) with nWritten := st.nWritten + 1 }
      match node.type with
      | .null => prim "null" | .boolean => prim "boolean" | .int => prim "int" | .long => prim "long"
      | .float => prim "float" | .double => prim "double" | .bytes => prim "bytes"
      | .string => prim "string"
      | .array items => guarded fun st =>
          match render S fuel items parentNs st with
          | .error e => .error e
          | .ok (j, st) => .ok (.obj (typeMembers "array" node.logical ++ [("items", j)]), st)
      | .map values => guarded fun st =>
          match render S fuel values parentNs st with
          | .error e => .error e
          | .ok (j, st) => .ok (.obj (typeMembers "map" node.logical ++ [("values", j)]), st)
      | .union vs =>
        if node.logical.isSome then .error .custom
        else guarded fun st =>
          match renderList S fuel vs parentNs st with
          | .error e => .error e
          | .ok (js, st) => .ok (.arr js, st)
      | .record name fields => named name fun st =>
          match renderFields S fuel fields name.ns st with
          | .error e => .error e
          | .ok (js, st) =>
            .ok (.obj (typeMembers "record" node.logical ++ nameMembers parentNs name ++ [("fields", .arr js)]), st)
      | .enum name syms => named name fun st =>
          .ok (.obj (typeMembers "enum" node.logical ++ nameMembers parentNs name
            ++ [("symbols", .arr (syms.map .str))]), st)
      | .fixed name size => named name fun st =>
          .ok (.obj (typeMembers "fixed" node.logical ++ nameMembers parentNs name ++ [("size", .nat size)]), st)

def renderList (S : SchemaMut) : Nat → List Nat → Option String → RenderState →
    Except SchemaErr (List Json × RenderState)
  | _, [], _, st => .ok ([], st)
  | 0, _ :: _, _, _ => .error .panic
  | fuel + 1, k :: rest, ns, st =>
    match render S fuel k ns st with
    | .error e => .error e
    | .ok (j, st) =>
      match renderList S fuel rest ns st with
      | .error e => .error e
      | .ok (js, st) => .ok (j :: js, st)

def renderFields (S : SchemaMut) : Nat → List (String × Nat) → Option String → RenderState →
    Except SchemaErr (List Json × RenderState)
  | _, [], _, st => .ok ([], st)
  | 0, _ :: _, _, _ => .error .panic
  | fuel + 1, (name, k) :: rest, ns, st =>
    match render S fuel k ns st with
    | .error e => .error e
    | .ok (j, st) =>
      match renderFields S fuel rest ns st with
      | .error e => .error e
      | .ok (js, st) => .ok (.obj [("name", .str name), ("type", j)] :: js, st)

end

def renderJson (S : SchemaMut) (fuel : Nat) : Except SchemaErr Json :=
  match render S fuel 0 none {} with
  | .error e => .error e
  | .ok (j, _) => .ok j

/-- `TryFrom<SchemaMut> for Schema`: non-empty, fingerprint (canonical form) computable, JSON
    available (kept from parsing, or regenerated), every key in bounds. Returns the frozen nodes.
    `keptJson = true` for a parsed, unedited schema. -/
def freeze (S : SchemaMut) (keptJson : Bool) (fuel : Nat) : Except SchemaErr Schema :=
  if S.size = 0 then .error .custom else
  match canonicalForm S fuel with
  | .error e => .error e
  | .ok _ =>
    match (if keptJson then .ok Json.null else renderJson S fuel) with
    | .error e => .error e
    | .ok _ =>
      if S.keysInBounds then .ok (freezeNodes S) else .error .custom

end Avro.Impl
