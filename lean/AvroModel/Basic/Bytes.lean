/-
Byte strings and fixed-width little/big-endian integer conversions.
Model files import nothing outside core so the driver links as a plain `lean_exe`.
-/
namespace Avro

abbrev Bytes := List UInt8

/-- `n` bytes, little endian, of the natural number `x` (truncating). -/
def leBytes : (n : Nat) → (x : Nat) → Bytes
  | 0, _ => []
  | n + 1, x => UInt8.ofNat (x % 256) :: leBytes n (x / 256)

/-- Little-endian bytes to natural number. -/
def leToNat : Bytes → Nat
  | [] => 0
  | b :: bs => b.toNat + 256 * leToNat bs

/-- `n` bytes, big endian, of the natural number `x` (truncating). -/
def beBytes (n : Nat) (x : Nat) : Bytes := (leBytes n x).reverse

def beToNat (bs : Bytes) : Nat := leToNat bs.reverse

@[simp] theorem leBytes_length (n x : Nat) : (leBytes n x).length = n := by
  induction n generalizing x with
  | zero => rfl
  | succ n ih => simp [leBytes, ih]

theorem leToNat_leBytes (n x : Nat) : leToNat (leBytes n x) = x % 256 ^ n := by
  induction n generalizing x with
  | zero => simp [leBytes, leToNat, Nat.mod_one]
  | succ n ih =>
    simp only [leBytes, leToNat, ih]
    have h : (UInt8.ofNat (x % 256)).toNat = x % 256 := by
      simp [UInt8.toNat_ofNat']
    rw [h, Nat.pow_succ, Nat.mul_comm (256 ^ n) 256, Nat.mod_mul]

theorem leToNat_lt (bs : Bytes) : leToNat bs < 256 ^ bs.length := by
  induction bs with
  | nil => simp [leToNat]
  | cons b bs ih =>
    simp only [leToNat, List.length_cons, Nat.pow_succ]
    have := b.toNat_lt
    omega

theorem leBytes_leToNat (bs : Bytes) : leBytes bs.length (leToNat bs) = bs := by
  induction bs with
  | nil => rfl
  | cons b bs ih =>
    simp only [List.length_cons, leBytes, leToNat]
    have hb := b.toNat_lt
    have h1 : (b.toNat + 256 * leToNat bs) % 256 = b.toNat := by omega
    have h2 : (b.toNat + 256 * leToNat bs) / 256 = leToNat bs := by omega
    rw [h1, h2, ih]
    simp

end Avro
