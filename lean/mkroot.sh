#!/bin/sh
# regenerate AvroModel.lean (root import list) from the files present
cd "$(dirname "$0")"
find AvroModel -name '*.lean' | sort | sed 's/\.lean$//; s#/#.#g; s/^/import /' > AvroModel.lean
