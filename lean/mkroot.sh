#!/bin/sh
# regenerate AvroModel.lean: the root imports the model (Basic, Generated, Spec, Impl); lemma and
# theorem modules are built individually through the library's glob (they are independent
# developments and may reuse helper names)
cd "$(dirname "$0")"
find AvroModel/Basic AvroModel/Generated AvroModel/Spec AvroModel/Impl -name '*.lean' | sort | sed 's/\.lean$//; s#/#.#g; s/^/import /' > AvroModel.lean
