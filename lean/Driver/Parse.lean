import AvroModel.Impl.Ser
import AvroModel.Impl.De
import AvroModel.Impl.SchemaParse
import AvroModel.Impl.SchemaRender
import AvroModel.Impl.Derive
/-
Line protocol (DESIGN.md 4.2): whitespace-separated tokens in prefix notation with explicit
counts; strings and byte strings are hex with an `x` prefix (`x` alone is the empty string).
This file is part of the trusted correspondence machinery, not of the model.
-/
namespace Driver
open Avro Avro.Impl

abbrev P := StateT (List String) (Except String)

def tok : P String := do
  match (← get) with
  | [] => throw "unexpected end of line"
  | t :: rest => set rest; pure t

def peek : P (Option String) := do
  match (← get) with
  | [] => pure none
  | t :: _ => pure (some t)

def hexVal (c : Char) : Option Nat :=
  if '0' ≤ c ∧ c ≤ '9' then some (c.toNat - '0'.toNat)
  else if 'a' ≤ c ∧ c ≤ 'f' then some (c.toNat - 'a'.toNat + 10)
  else if 'A' ≤ c ∧ c ≤ 'F' then some (c.toNat - 'A'.toNat + 10)
  else none

def hexToBytes (s : List Char) : Option Bytes :=
  match s with
  | [] => some []
  | a :: b :: rest => do
    let x ← hexVal a
    let y ← hexVal b
    let r ← hexToBytes rest
    pure (UInt8.ofNat (x * 16 + y) :: r)
  | _ => none

def hexDigit (n : Nat) : Char :=
  if n < 10 then Char.ofNat (n + '0'.toNat) else Char.ofNat (n - 10 + 'a'.toNat)

def bytesToHex (bs : Bytes) : String :=
  String.ofList (bs.flatMap fun b => [hexDigit (b.toNat / 16), hexDigit (b.toNat % 16)])

def pBytes : P Bytes := do
  let t ← tok
  match t.toList with
  | 'x' :: rest =>
    match hexToBytes rest with
    | some bs => pure bs
    | none => throw s!"bad hex {t}"
  | _ => throw s!"expected x-hex, got {t}"

def bytesToString? (bs : Bytes) : Option String := String.fromUTF8? (ByteArray.mk bs.toArray)

def pStr : P String := do
  let bs ← pBytes
  match bytesToString? bs with
  | some s => pure s
  | none => throw "string token is not UTF-8"

def pNat : P Nat := do
  let t ← tok
  match t.toNat? with
  | some n => pure n
  | none => throw s!"expected nat, got {t}"

def pInt : P Int := do
  let t ← tok
  match t.toInt? with
  | some n => pure n
  | none => throw s!"expected int, got {t}"

def pOptNat : P (Option Nat) := do
  let t ← tok
  if t = "-" then pure none else
  match t.toNat? with
  | some n => pure (some n)
  | none => throw s!"expected nat or -, got {t}"

def pHexNat : P Nat := do
  let t ← tok
  let rec go : List Char → Nat → Option Nat
    | [], acc => some acc
    | c :: rest, acc => match hexVal c with
      | some v => go rest (acc * 16 + v)
      | none => none
  match go t.toList 0 with
  | some n => pure n
  | none => throw s!"expected hex number, got {t}"

def pList {α} (p : P α) : P (List α) := do
  let n ← pNat
  let rec go : Nat → List α → P (List α)
    | 0, acc => pure acc.reverse
    | k + 1, acc => do let a ← p; go k (a :: acc)
  go n []

def pName : P Name := do pure (Name.ofFq (← pStr))

def pRegular : P RegularType := do
  let t ← tok
  match t with
  | "null" => pure .null | "boolean" => pure .boolean | "int" => pure .int | "long" => pure .long
  | "float" => pure .float | "double" => pure .double | "bytes" => pure .bytes
  | "string" => pure .string
  | "array" => do pure (.array (← pNat))
  | "map" => do pure (.map (← pNat))
  | "union" => do pure (.union (← pList pNat))
  | "record" => do
    let nm ← pName
    let fs ← pList (do let f ← pStr; let k ← pNat; pure (f, k))
    pure (.record nm fs)
  | "enum" => do
    let nm ← pName
    let syms ← pList pStr
    pure (.enum nm syms)
  | "fixed" => do
    let nm ← pName
    pure (.fixed nm (← pNat))
  | _ => throw s!"unknown regular type {t}"

def pLogical : P (Option LogicalType) := do
  let t ← tok
  match t with
  | "-" => pure none
  | "decimal" => do let s ← pNat; let p ← pNat; pure (some (.decimal s p))
  | "uuid" => pure (some .uuid) | "date" => pure (some .date)
  | "time-millis" => pure (some .timeMillis) | "time-micros" => pure (some .timeMicros)
  | "timestamp-millis" => pure (some .timestampMillis)
  | "timestamp-micros" => pure (some .timestampMicros)
  | "duration" => pure (some .duration) | "big-decimal" => pure (some .bigDecimal)
  | "unknown" => do pure (some (.unknown (← pStr)))
  | _ => throw s!"unknown logical type {t}"

def pSchemaMut : P SchemaMut := do
  let nodes ← pList (do let r ← pRegular; let l ← pLogical; pure ({ type := r, logical := l } : RawNode))
  pure nodes.toArray

def intTyOf (t : String) : Option IntTy :=
  match t with
  | "i8" => some .i8 | "i16" => some .i16 | "i32" => some .i32 | "i64" => some .i64
  | "i128" => some .i128 | "u8" => some .u8 | "u16" => some .u16 | "u32" => some .u32
  | "u64" => some .u64 | "u128" => some .u128
  | _ => none

partial def pSV : P SV := do
  let t ← tok
  match intTyOf t with
  | some ty => do pure (.int ty (← pInt))
  | none =>
  match t with
  | "bool" => do pure (.bool ((← pNat) ≠ 0))
  | "f32" => do pure (.f32 (BitVec.ofNat 32 (← pHexNat)))
  | "f64" => do pure (.f64 (BitVec.ofNat 64 (← pHexNat)))
  | "char" => do pure (.char (Char.ofNat (← pNat)))
  | "str" => do pure (.str (← pStr))
  | "bytes" => do pure (.bytes (← pBytes))
  | "none" => pure .none
  | "some" => do pure (.some (← pSV))
  | "unit" => pure .unit
  | "ustruct" => do pure (.unitStruct (← pStr))
  | "uvar" => do let n ← pStr; let i ← pNat; let v ← pStr; pure (.unitVariant n i v)
  | "nstruct" => do let n ← pStr; let v ← pSV; pure (.newtypeStruct n v)
  | "nvar" => do let n ← pStr; let i ← pNat; let var ← pStr; let v ← pSV; pure (.newtypeVariant n i var v)
  | "seq" => do let l ← pOptNat; let es ← pList pSV; pure (.seq l es)
  | "tuple" => do pure (.tuple (← pList pSV))
  | "tstruct" => do let n ← pStr; let es ← pList pSV; pure (.tupleStruct n es)
  | "tvar" => do let n ← pStr; let i ← pNat; let var ← pStr; let es ← pList pSV; pure (.tupleVariant n i var es)
  | "map" | "mapkv" => do
    -- `mapkv`: the harness presents the entries through the split serialize_key /
    -- serialize_value calls; serde defines serialize_entry as exactly that pair
    let l ← pOptNat
    let es ← pList (do let k ← pSV; let v ← pSV; pure (k, v))
    pure (.map l es)
  | "struct" => do
    let n ← pStr
    let fs ← pList (do let k ← pStr; let v ← pSV; pure (k, v))
    pure (.struct n fs)
  | "svar" => do
    let n ← pStr; let i ← pNat; let var ← pStr
    let fs ← pList (do let k ← pStr; let v ← pSV; pure (k, v))
    pure (.structVariant n i var fs)
  | _ => throw s!"unknown serde value tag {t}"

/-- Oracle table for the external parameters, shipped with the case (DESIGN.md 4.2). -/
structure ExtTable where
  f32 : List (Nat × Nat) := []
  dparse : List (String × Option (Int × Nat)) := []
  df64 : List (Nat × Option (Int × Nat)) := []
  rescale : List ((Int × Nat × Nat) × (Int × Nat)) := []

def pOptDec : P (Option (Int × Nat)) := do
  match (← peek) with
  | some "none" => do let _ ← tok; pure none
  | _ => do let m ← pInt; let s ← pNat; pure (some (m, s))

partial def pExtEntriesRaw (t : ExtTable) : P ExtTable := do
  match (← peek) with
  | some "f32" => do
    let _ ← tok; let a ← pHexNat; let b ← pHexNat
    pExtEntriesRaw { t with f32 := (a, b) :: t.f32 }
  | some "dparse" => do
    let _ ← tok; let s ← pStr; let r ← pOptDec
    pExtEntriesRaw { t with dparse := (s, r) :: t.dparse }
  | some "df64" => do
    let _ ← tok; let a ← pHexNat; let r ← pOptDec
    pExtEntriesRaw { t with df64 := (a, r) :: t.df64 }
  | some "rescale" => do
    let _ ← tok; let m ← pInt; let s ← pNat; let target ← pNat; let m' ← pInt; let s' ← pNat
    pExtEntriesRaw { t with rescale := ((m, s, target), (m', s')) :: t.rescale }
  | _ => pure t

/-- What the serializer theorems assume of `rust_decimal` (`ExtOK`, Lemmas/SerSoundMain.lean),
    as a check on the shipped table: every decimal a `dparse` / `df64` entry answers has a
    mantissa in `i128` and a scale below `2^63`, every `rescale` entry answers a mantissa in
    `i128`.  (`rust_decimal` mantissas have 96 bits and scales are at most 28, so the tables the
    harness records always pass.) -/
def ExtTable.ok (t : ExtTable) : Bool :=
  t.dparse.all (fun p => match p.2 with
    | none => true
    | some d => inI128 d.1 && decide (d.2 < 2 ^ 63)) &&
  t.df64.all (fun p => match p.2 with
    | none => true
    | some d => inI128 d.1 && decide (d.2 < 2 ^ 63)) &&
  t.rescale.all (fun p => inI128 p.2.1)

/-- The table of a case, checked: a case whose table is outside the range above is refused
    (`bad-case`), so every table the driver runs the model with satisfies `ExtTable.ok`
    (`pExtEntries_ok`), hence `ExtOK` (`toExt_ExtOK`, Theorems/C01driver.lean). -/
def pExtEntries (t : ExtTable) : P ExtTable := do
  let r ← pExtEntriesRaw t
  if r.ok then pure r else throw "ext table entry outside the i128 / i64 range"

/-- `f64 as f32` through Lean's runtime floats (C cast semantics); the table, when present,
    takes precedence. -/
def asF32Native (b : BitVec 64) : BitVec 32 :=
  BitVec.ofNat 32 (Float.ofBits (UInt64.ofNat b.toNat)).toFloat32.toBits.toNat

def ExtTable.toExt (t : ExtTable) : Ext where
  asF32 b := match t.f32.lookup b.toNat with
    | some r => BitVec.ofNat 32 r
    | none => asF32Native b
  decFromF64 b := (t.df64.lookup b.toNat).join
  decParse s := (t.dparse.lookup s).join
  decRescale d target := match t.rescale.lookup (d.1, d.2, target) with
    | some r => r
    | none => d

mutual
partial def pHint : P Hint := do
  let t ← tok
  match t with
  | "any" => pure .any | "u64" => pure .u64 | "i64" => pure .i64 | "u128" => pure .u128
  | "i128" => pure .i128 | "f64" => pure .f64 | "str" => pure .str | "bytes" => pure .bytes
  | "identifier" => pure .identifier | "ignored" => pure .ignored
  | "option" => do pure (.option (← pHint))
  | "seq" => do pure (.seq (← pHint))
  | "tuple" => do let n ← pNat; let h ← pHint; pure (.tuple n h)
  | "map" => do let k ← pHint; let v ← pHint; pure (.map k v)
  | "struct" => do pure (.struct (← pList (do let k ← pStr; let h ← pHint; pure (k, h))))
  | "enum" => do pure (.enum (← pList (do let k ← pStr; let v ← pVariantHint; pure (k, v))))
  | _ => throw s!"unknown hint {t}"
partial def pVariantHint : P VariantHint := do
  let t ← tok
  match t with
  | "unit" => pure .unit
  | "newtype" => do pure (.newtype (← pHint))
  | "tuple" => do let n ← pNat; let h ← pHint; pure (.tuple n h)
  | "struct" => do pure (.struct (← pList (do let k ← pStr; let h ← pHint; pure (k, h))))
  | _ => throw s!"unknown variant hint {t}"
end

def strHex (s : String) : String := "x" ++ bytesToHex s.toUTF8.data.toList

partial def outToString : Out → String
  | .unit => "unit"
  | .bool b => s!"bool {if b then 1 else 0}"
  | .i32 i => s!"i32 {i}" | .i64 i => s!"i64 {i}" | .i128 i => s!"i128 {i}"
  | .u32 n => s!"u32 {n}" | .u64 n => s!"u64 {n}" | .u128 n => s!"u128 {n}"
  | .f32 b => "f32 " ++ String.ofList (hexPad 8 b.toNat)
  | .f64 b => "f64 " ++ String.ofList (hexPad 16 b.toNat)
  | .str s b => s!"str {strHex s} {if b then 1 else 0}"
  | .bytes bs b => s!"bytes x{bytesToHex bs} {if b then 1 else 0}"
  | .none => "none"
  | .some o => "some " ++ outToString o
  | .seq items => s!"seq {items.length}" ++ String.join (items.map fun o => " " ++ outToString o)
  | .map es => s!"map {es.length}" ++ String.join (es.map fun (k, v) => " " ++ outToString k ++ " " ++ outToString v)
  | .variant n p => "variant " ++ outToString n ++ " " ++ outToString p
where
  hexPad (w : Nat) (n : Nat) : List Char :=
    (List.range w).reverse.map fun i => hexDigit ((n / 16 ^ i) % 16)

/-- inverse of `outToString` (used to judge the implementation's own outcome) -/
partial def pOut : P Out := do
  match (← tok) with
  | "unit" => pure .unit
  | "bool" => do pure (.bool ((← pNat) ≠ 0))
  | "i32" => do pure (.i32 (← pInt))
  | "i64" => do pure (.i64 (← pInt))
  | "i128" => do pure (.i128 (← pInt))
  | "u32" => do pure (.u32 (← pNat))
  | "u64" => do pure (.u64 (← pNat))
  | "u128" => do pure (.u128 (← pNat))
  | "f32" => do pure (.f32 (BitVec.ofNat 32 (← pHexNat)))
  | "f64" => do pure (.f64 (BitVec.ofNat 64 (← pHexNat)))
  | "str" => do let s ← pStr; let b ← pNat; pure (.str s (b ≠ 0))
  | "bytes" => do let bs ← pBytes; let b ← pNat; pure (.bytes bs (b ≠ 0))
  | "none" => pure .none
  | "some" => do pure (.some (← pOut))
  | "seq" => do pure (.seq (← pList pOut))
  | "map" => do pure (.map (← pList (do let k ← pOut; let v ← pOut; pure (k, v))))
  | "variant" => do let n ← pOut; let v ← pOut; pure (.variant n v)
  | t => throw s!"unknown out token {t}"

/-- `ok <out> left <n>` | `err custom` | `err io` | `panic` -/
def pDeOutcome : P (Except DeErr (Out × Nat)) := do
  match (← tok) with
  | "ok" => do
    let o ← pOut
    let _ ← tok
    let left ← pNat
    pure (.ok (o, left))
  | "err" => do
    match (← tok) with
    | "io" => pure (.error .io)
    | _ => pure (.error .custom)
  | "panic" | "abort" => pure (.error .panic)
  | t => throw s!"unknown outcome {t}"

/-! ### Derive programs (C20) -/
section DeriveParse
open Avro.Impl.Derive

def pOptStr : P (Option String) := do
  match (← peek) with
  | some "-" => do let _ ← tok; pure none
  | _ => do pure (some (← pStr))

partial def pTy : P Ty := do
  match (← tok) with
  | "unit" => pure .unit | "bool" => pure .bool
  | "i8" => pure .i8 | "i16" => pure .i16 | "i32" => pure .i32 | "i64" => pure .i64
  | "u16" => pure .u16 | "u32" => pure .u32 | "u64" => pure .u64 | "usize" => pure .usize
  | "f32" => pure .f32 | "f64" => pure .f64
  | "string" => pure .string | "str" => pure .str
  | "bytevec" => pure .byteVec | "byteslice" => pure .byteSlice
  | "bytearray" => do pure (.byteArray (← pNat))
  | "vec" => do pure (.vec (← pTy))
  | "option" => do pure (.option (← pTy))
  | "hashmap" => do pure (.hashMap (← pTy))
  | "btreemap" => do pure (.btreeMap (← pTy))
  | "ptr" => do pure (.ptr (← pTy))
  | "named" => do let id ← pNat; let args ← pList pTy; pure (.named id args)
  | "param" => do pure (.param (← pNat))
  | t => throw s!"unknown type token {t}"

def pField : P Field := do
  let name ← pStr
  let ty ← pTy
  match (← tok) with
  | "-" => pure { name, ty }
  | "logical" => do
    let l ← pStr
    let sc ← pOptNat
    let pr ← pOptNat
    pure { name, ty, attr := { logical := some l, scale := sc, precision := pr } }
  | t => throw s!"unknown attr token {t}"

def pDecl : P Decl := do
  let ident ← pStr
  let nameOverride ← pOptStr
  let ns ← pOptStr
  let nparams ← pNat
  let modulePath ← pStr
  let body ← (do
    match (← tok) with
    | "record" => do pure (Body.record (← pList pField))
    | "newtype" => do pure (Body.newtype (← pField))
    | "unitenum" => do pure (Body.unitEnum (← pList pStr))
    | "union" => do
      let vs ← pList (do
        let ident ← pStr
        let serdeName ← pStr
        match (← tok) with
        | "unit" => pure ({ ident, serdeName, field := none } : Variant)
        | "field" => do pure ({ ident, serdeName, field := some (← pField) } : Variant)
        | t => throw s!"unknown variant token {t}")
      pure (Body.union vs)
    | t => throw s!"unknown body token {t}" : P Body)
  pure { ident, nameOverride, ns, nparams, modulePath, body }

def pProg : P Prog := do pure (← pList pDecl).toArray

end DeriveParse

/-- read back-end description: `slice` | `reader <last> <n> <sizes…> <maxAlloc>` -/
def pBackend (bytes : Bytes → RState) : P (Bytes → RState) := do
  let t ← tok
  match t with
  | "slice" => pure fun b => { bytes b with isSlice := true }
  | "reader" => do
    let last ← pNat
    let sched ← pList pNat
    let maxAlloc ← pNat
    pure fun b => { bytes b with isSlice := false, lastChunk := last, sched := sched, maxAlloc := maxAlloc }
  | _ => throw s!"unknown backend {t}"

partial def pJson : P Json := do
  let t ← tok
  match t with
  | "jnull" => pure .null
  | "jbool" => do pure (.bool ((← pNat) ≠ 0))
  | "jnat" => do pure (.nat (← pNat))
  | "jnum" => pure .numOther
  | "jstr" => do pure (.str (← pStr))
  | "jarr" => do pure (.arr (← pList pJson))
  | "jobj" => do pure (.obj (← pList (do let k ← pStr; let v ← pJson; pure (k, v))))
  | _ => throw s!"unknown json tag {t}"

partial def jsonSize : Json → Nat
  | .arr items => 1 + (items.map jsonSize).foldl (· + ·) 0
  | .obj ms => 1 + (ms.map fun m => jsonSize m.2).foldl (· + ·) 0
  | _ => 1

partial def jsonToString : Json → String
  | .null => "jnull"
  | .bool b => s!"jbool {if b then 1 else 0}"
  | .nat n => s!"jnat {n}"
  | .numOther => "jnum"
  | .str s => s!"jstr {strHex s}"
  | .arr items => s!"jarr {items.length}" ++ String.join (items.map fun j => " " ++ jsonToString j)
  | .obj ms => s!"jobj {ms.length}" ++ String.join (ms.map fun (k, v) => s!" {strHex k} " ++ jsonToString v)

def logicalToString : Option LogicalType → String
  | none => "-"
  | some (.decimal s p) => s!"decimal {s} {p}"
  | some .uuid => "uuid" | some .date => "date" | some .timeMillis => "time-millis"
  | some .timeMicros => "time-micros" | some .timestampMillis => "timestamp-millis"
  | some .timestampMicros => "timestamp-micros" | some .duration => "duration"
  | some .bigDecimal => "big-decimal"
  | some (.unknown n) => s!"unknown {strHex n}"

def schemaMutToString (S : SchemaMut) : String :=
  let node (n : RawNode) : String :=
    (match n.type with
      | .null => "null" | .boolean => "boolean" | .int => "int" | .long => "long"
      | .float => "float" | .double => "double" | .bytes => "bytes" | .string => "string"
      | .array i => s!"array {i}"
      | .map v => s!"map {v}"
      | .union vs => s!"union {vs.length}" ++ String.join (vs.map fun v => s!" {v}")
      | .record nm fs => s!"record {strHex nm.fq} {fs.length}" ++ String.join (fs.map fun (f, k) => s!" {strHex f} {k}")
      | .enum nm syms => s!"enum {strHex nm.fq} {syms.length}" ++ String.join (syms.map fun s => " " ++ strHex s)
      | .fixed nm size => s!"fixed {strHex nm.fq} {size}")
    ++ " " ++ logicalToString n.logical
  s!"{S.size}" ++ String.join (S.toList.map fun n => " " ++ node n)

def run {α} (p : P α) (toks : List String) : Except String (α × List String) := p.run toks

end Driver
