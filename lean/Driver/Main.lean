import Driver.Parse
import AvroModel.Impl.Rabin
import AvroModel.Spec.Crc64
open Avro Avro.Impl Driver

/-- `ser <allowSlow> <budget|-> <schema> <sv> [ext entries]` → `ok <hex>` / `err` / `panic`. -/
def runSer : P String := do
  let allowSlow := (← pNat) ≠ 0
  let budget ← pOptNat
  let sm ← pSchemaMut
  let sv ← pSV
  let ext ← pExtEntries {}
  let S := freezeNodes sm
  match S[0]? with
  | none => pure "noroot"
  | some root =>
    let (r, st) := ser ext.toExt allowSlow S root sv { budget := budget }
    match r with
    | .ok _ => pure s!"ok {bytesToHex st.out}"
    | .error .panic => pure "panic"
    | .error _ => pure "err"

/-- `crc <bytes>` → fingerprint by the model; oracle: the specification's bit-serial CRC. -/
def runCrc : P String := do
  let bs ← pBytes
  let fp := rabinFingerprint bs
  let verdict := if fp = Spec.fingerprintLE bs then "ok" else "VIOLATION fingerprint differs from CRC-64-AVRO of the specification"
  pure s!"fp {bytesToHex fp} # {verdict}"

def dispatch (line : String) : String :=
  let toks := (line.splitOn " ").filter (· ≠ "")
  match toks with
  | [] => ""
  | cmd :: rest =>
    let p : Option (P String) := match cmd with
      | "ser" => some runSer
      | "crc" => some runCrc
      | _ => none
    match p with
    | none => s!"bad-case unknown stream {cmd}"
    | some p =>
      match p.run rest with
      | .ok (out, _) => out
      | .error e => s!"bad-case {e}"

partial def loop (h : IO.FS.Stream) (out : IO.FS.Stream) : IO Unit := do
  let line ← h.getLine
  if line.isEmpty then return ()
  let line := line.trimAscii.toString
  out.putStrLn (dispatch line)
  loop h out

def main : IO Unit := do
  let stdin ← IO.getStdin
  let stdout ← IO.getStdout
  loop stdin stdout
