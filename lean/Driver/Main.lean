import Driver.Parse
import AvroModel.Impl.Rabin
import AvroModel.Spec.Crc64
import AvroModel.Spec.Denotes
import AvroModel.Impl.DecimalLib
open Avro Avro.Impl Driver

def Driver.ExtTable.toDenExt (t : ExtTable) : Spec.DenExt :=
  let e := t.toExt
  { asF32 := e.asF32, decFromF64 := e.decFromF64, decParse := e.decParse, decRescale := e.decRescale }

/-- Schemas on which the reading of a presentation is unambiguous: distinct field names per
    record, distinct symbols per enum (the Avro specification requires both). -/
def schemaNamesDistinct (S : Schema) : Bool :=
  S.all fun n => match n with
    | .record _ fs => (fs.map (·.1)).Nodup
    | .enum _ syms => syms.Nodup
    | _ => true

/-- The C02 oracle on an `Ok(bytes)` outcome: the bytes decode, completely, under the
    specification's decoder, to a value the presentation denotes. -/
def judgeSer (ext : ExtTable) (S : Schema) (root : Node) (sv : SV) (bs : Bytes) : String :=
  if !schemaNamesDistinct S then "n/a duplicate field names or symbols" else
  match Spec.decode S (4 * bs.length + 4 * S.size + 64) root bs with
  | none => "VIOLATION Ok(bytes) but the bytes do not decode under the specification"
  | some (_, _ :: _) => "VIOLATION Ok(bytes) but decoding leaves trailing bytes"
  | some (v, []) =>
    if Spec.denotes ext.toDenExt S root sv v then "ok"
    else "VIOLATION Ok(bytes) decodes to a value the presentation does not denote"

/-- `ser <allowSlow> <budget|-> <schema> <sv> [ext entries]` → `ok <hex>` / `err` / `panic`. -/
def runSer (mustSucceed : Bool) : P String := do
  let allowSlow := (← pNat) ≠ 0
  let budget ← pOptNat
  let sm ← pSchemaMut
  let sv ← pSV
  let ext ← pExtEntries {}
  let S := freezeNodes sm
  match S[0]? with
  | none => pure "noroot"
  | some root =>
    let (r, st) := ser ext.toExt allowSlow S root sv { budget := budget }
    match r with
    | .ok _ => pure s!"ok {bytesToHex st.out} # {judgeSer ext S root sv st.out}"
    | .error .panic => pure "panic # VIOLATION panic"
    | .error _ =>
      if mustSucceed then pure "err # VIOLATION a conforming value in a branch-determining presentation was rejected"
      else pure "err # ok"

/-- `judge-ser <hex|err> <case…>`: the oracle applied to the *implementation's* outcome. -/
def runJudgeSer : P String := do
  let outcome ← tok
  let _ ← tok  -- the stream tag of the embedded case
  let _ ← pNat
  let _ ← pOptNat
  let sm ← pSchemaMut
  let sv ← pSV
  let ext ← pExtEntries {}
  let S := freezeNodes sm
  match S[0]?, outcome.toList with
  | some root, 'x' :: h =>
    match hexToBytes h with
    | some bs => pure s!"judged # {judgeSer ext S root sv bs}"
    | none => pure "bad-case hex"
  | _, _ => pure "judged # ok"

def deOne (cfg : DeConfig) (S : Schema) (root : Node) (depth : Nat) (hint : Hint) (st0 : RState) :
    Except DeErr (Out × Nat) :=
  let fuel := (depth + 4) * (cfg.maxSeqSize + 8 * S.size + 64) + 16 * st0.rest.length + 4096
  let (r, st) := de deExtModel cfg S fuel root depth false hint st0
  match r with
  | .ok o => .ok (o, st.rest.length)
  | .error e => .error e

def fmtDe : Except DeErr (Out × Nat) → String
  | .ok (o, left) => s!"ok {outToString o} left {left}"
  | .error .custom => "err custom"
  | .error .io => "err io"
  | .error .panic => "panic"

/-- `de <backend> <maxSeq> <depth> <schema> <hint> <bytes>` → `ok <out> left <n>` / `err <class>`. -/
def runDe : P String := do
  let mk ← pBackend (fun b => { rest := b })
  let maxSeq ← pNat
  let depth ← pNat
  let sm ← pSchemaMut
  let hint ← pHint
  let bs ← pBytes
  let S := freezeNodes sm
  match S[0]? with
  | none => pure "noroot"
  | some root =>
    let cfg : DeConfig := { maxSeqSize := maxSeq, allowedDepth := depth }
    pure (fmtDe (deOne cfg S root depth hint (mk bs)))

/-- drop the `borrowed` flags: the only difference allowed between back-ends on success -/
partial def unborrow : Out → Out
  | .str s _ => .str s false
  | .bytes b _ => .bytes b false
  | .some o => .some (unborrow o)
  | .seq items => .seq (items.map unborrow)
  | .map es => .map (es.map fun (k, v) => (unborrow k, unborrow v))
  | .variant n p => .variant (unborrow n) (unborrow p)
  | o => o

/-- outcome up to what C11 allows to differ: the error class and the `borrowed` flags -/
def c11Key : Except DeErr (Out × Nat) → String
  | .ok (o, left) => s!"ok {outToString (unborrow o)} left {left}"
  | .error .panic => "panic"
  | .error _ => "err"

/-- `c11 <maxSeq> <depth> <schema> <hint> <bytes> <k> <backend>*k`: one input through several
    back-ends; oracle: all outcomes are the same value (or all errors) with the same bytes left. -/
def runC11 : P String := do
  let maxSeq ← pNat
  let depth ← pNat
  let sm ← pSchemaMut
  let hint ← pHint
  let bs ← pBytes
  let mks ← pList (pBackend (fun b => { rest := b }))
  let S := freezeNodes sm
  match S[0]? with
  | none => pure "noroot"
  | some root =>
    let cfg : DeConfig := { maxSeqSize := maxSeq, allowedDepth := depth }
    let rs := mks.map fun mk => deOne cfg S root depth hint (mk bs)
    let keys := rs.map c11Key
    let verdict := match keys with
      | [] => "ok"
      | k :: rest => if rest.all (· == k) then "ok" else "VIOLATION slice and streamed input decode differently"
    pure (" ; ".intercalate (rs.map fmtDe) ++ " # " ++ verdict)

/-- `crc <bytes>` → fingerprint by the model; oracle: the specification's bit-serial CRC. -/
def runCrc : P String := do
  let bs ← pBytes
  let fp := rabinFingerprint bs
  let verdict := if fp = Spec.fingerprintLE bs then "ok" else "VIOLATION fingerprint differs from CRC-64-AVRO of the specification"
  pure s!"fp {bytesToHex fp} # {verdict}"

def dispatch (line : String) : String :=
  let toks := (line.splitOn " ").filter (· ≠ "")
  match toks with
  | [] => ""
  | cmd :: rest =>
    let p : Option (P String) := match cmd with
      | "ser" => some (runSer false)
      | "serv" => some (runSer true)
      | "judge-ser" => some runJudgeSer
      | "crc" => some runCrc
      | "de" => some runDe
      | "c11" => some runC11
      | _ => none
    match p with
    | none => s!"bad-case unknown stream {cmd}"
    | some p =>
      match p.run rest with
      | .ok (out, _) => out
      | .error e => s!"bad-case {e}"

partial def loop (h : IO.FS.Stream) (out : IO.FS.Stream) : IO Unit := do
  let line ← h.getLine
  if line.isEmpty then return ()
  let line := line.trimAscii.toString
  out.putStrLn (dispatch line)
  loop h out

def main : IO Unit := do
  let stdin ← IO.getStdin
  let stdout ← IO.getStdout
  loop stdin stdout
