import Driver.Parse
import AvroModel.Impl.Rabin
import AvroModel.Spec.Crc64
import AvroModel.Spec.Denotes
import AvroModel.Impl.DecimalLib
import AvroModel.Impl.Ocf
import AvroModel.Impl.OcfHeader
import AvroModel.Spec.Ocf
import AvroModel.Spec.Observe
import AvroModel.Impl.Single
import AvroModel.Impl.Lifetimes
import AvroModel.Spec.Pcf
import AvroModel.Lemmas.DriverFuel
open Avro Avro.Impl Driver

def Driver.ExtTable.toDenExt (t : ExtTable) : Spec.DenExt :=
  let e := t.toExt
  { asF32 := e.asF32, decFromF64 := e.decFromF64, decParse := e.decParse, decRescale := e.decRescale }

/-- Schemas on which the reading of a presentation is unambiguous: distinct field names per
    record, distinct symbols per enum (the Avro specification requires both). -/
def schemaNamesDistinct (S : Schema) : Bool :=
  S.all fun n => match n with
    | .record _ fs => (fs.map (·.1)).Nodup
    | .enum _ syms => syms.Nodup
    | _ => true

/-- Fuel for the graph traversals (canonical form, renderer, freeze): `Avro.Impl.graphFuel`
    (`AvroModel/Lemmas/DriverFuel.lean`), the bound of the totality theorems C19_pcf_total /
    C19_render_total, `size * (size+1) * (maxWidth+1) + 1`, with slack
    (`Theorems/GraphFuel.lean`: `pcfBound_le_graphFuel`, `renderBound_le_graphFuel`).
    No local definition: `graphFuel` below IS `Avro.Impl.graphFuel`. -/
example (S : SchemaMut) : graphFuel S = (S.size + 2) * (S.size + 2) * (maxWidth S + 2) + 64 := rfl

/-- The C02 oracle on an `Ok(bytes)` outcome: the bytes decode, completely, under the
    specification's decoder, to a value the presentation denotes. -/
def judgeSer (ext : ExtTable) (S : Schema) (root : Node) (sv : SV) (bs : Bytes) : String :=
  if !schemaNamesDistinct S then "n/a duplicate field names or symbols" else
  match Spec.decode S (4 * bs.length + 4 * S.size + 64) root bs with
  | none => "VIOLATION Ok(bytes) but the bytes do not decode under the specification"
  | some (_, _ :: _) => "VIOLATION Ok(bytes) but decoding leaves trailing bytes"
  | some (v, []) =>
    if Spec.denotes ext.toDenExt S root sv v then "ok"
    else "VIOLATION Ok(bytes) decodes to a value the presentation does not denote"

/-- The C02 oracle's error clause "a type-directed union choice with several equally suitable
    branches yields Err": route the presentation through the schema the way the serializer does
    (by name where a name pins a branch, by the priority table otherwise) and report whether some
    type-directed choice on the way meets a `conflict` slot.  Only used to turn a model/code
    disagreement (`Ok` from the code, `Err` from the model) into a failing input of the property;
    it is not part of any theorem. -/
partial def ambiguousChoice (S : Schema) (node : Node) (sv : SV) : Bool :=
  let branchAt (vs : List Nat) (d : Nat) : Option Node := (vs[d]?).bind (S[·]?)
  let direct (node : Node) (key : LookupKey) (k : Node → Bool) : Bool :=
    match node with
    | .union vs =>
      match slotFor key (branchNodes S vs) with
      | .conflict _ => true
      | .some _ d => (match branchAt vs d with | some n => k n | none => false)
      | .none => false
    | n => k n
  let byName (node : Node) (name : String) (k : Node → Bool) : Bool :=
    match node with
    | .union vs =>
      match namedLookup name (branchNodes S vs) with
      | some d => (match branchAt vs d with | some n => k n | none => false)
      | none => k node
    | n => k n
  let fieldsIn (n : Node) (fields : List (String × SV)) : Bool :=
    match n with
    | .record _ fs => fields.any fun (name, v) =>
        match fs.find? (·.1 = name) with
        | some (_, k) => (match S[k]? with | some fn => ambiguousChoice S fn v | none => false)
        | none => false
    | .map k => (match S[k]? with
        | some vn => fields.any fun (_, v) => ambiguousChoice S vn v
        | none => false)
    | _ => false
  let elemsIn (n : Node) (elems : List SV) : Bool :=
    match n with
    | .array k => (match S[k]? with
        | some item => elems.any (ambiguousChoice S item)
        | none => false)
    | _ => false
  let leaf (key : LookupKey) : Bool := direct node key fun _ => false
  match sv with
  | .bool _ => leaf .boolean
  | .int t _ => leaf (integerKey t)
  | .f32 _ => leaf .float4
  | .f64 _ => leaf .float8
  | .char _ | .str _ => leaf .str
  | .bytes _ => leaf .sliceU8
  | .none | .unit => leaf .null
  | .unitStruct _ => leaf .unitStruct
  | .unitVariant _ _ _ => leaf .unitVariant
  | .some x => ambiguousChoice S node x
  | .newtypeStruct name x => byName node name fun n => ambiguousChoice S n x
  | .newtypeVariant _ _ variant x => byName node variant fun n => ambiguousChoice S n x
  | .seq _ elems | .tuple elems | .tupleStruct _ elems =>
    direct node .seqOrTuple fun n => elemsIn n elems
  | .tupleVariant _ _ variant elems =>
    byName node variant fun n => direct n .seqOrTuple fun n => elemsIn n elems
  | .map _ entries =>
    direct node .structOrMap fun n =>
      fieldsIn n (entries.filterMap fun (k, v) => match k with | .str s => some (s, v) | _ => none)
  | .struct name fields => byName node name fun n => direct n .structOrMap fun n => fieldsIn n fields
  | .structVariant _ _ variant fields =>
    byName node variant fun n => direct n .structOrMap fun n => fieldsIn n fields

/-- `ser <allowSlow> <budget|-> <schema> <sv> [ext entries]` → `ok <hex>` / `err` / `panic`. -/
def runSer (mustSucceed : Bool) : P String := do
  let allowSlow := (← pNat) ≠ 0
  let budget ← pOptNat
  let sm ← pSchemaMut
  let sv ← pSV
  let ext ← pExtEntries {}
  let S := freezeNodes sm
  match S[0]? with
  | none => pure "noroot"
  | some root =>
    let (r, st) := ser ext.toExt allowSlow S root sv { budget := budget }
    match r with
    | .ok _ => pure s!"ok {bytesToHex st.out} # {judgeSer ext S root sv st.out}"
    | .error .panic => pure "panic # VIOLATION panic"
    | .error _ =>
      if mustSucceed then pure "err # VIOLATION a conforming value in a branch-determining presentation was rejected"
      else pure "err # ok"

/-- `judge-ser <hex|err> <case…>`: the oracle applied to the *implementation's* outcome. -/
def runJudgeSer : P String := do
  let outcome ← (do
    match (← pList tok) with
    | ["ok", h] => pure ("x" ++ h)
    | _ => pure "err" : P String)
  let _ ← pNat
  let _ ← pOptNat
  let sm ← pSchemaMut
  let sv ← pSV
  let ext ← pExtEntries {}
  let S := freezeNodes sm
  match S[0]?, outcome.toList with
  | some root, 'x' :: h =>
    match hexToBytes h with
    | some bs =>
      let v := judgeSer ext S root sv bs
      if v = "ok" && ambiguousChoice S root sv then
        pure "judged # VIOLATION Ok(bytes) although a type-directed union choice on the way has several equally suitable branches"
      else pure s!"judged # {v}"
    | none => pure "bad-case hex"
  | _, _ => pure "judged # ok"

def deOne (cfg : DeConfig) (S : Schema) (root : Node) (depth : Nat) (hint : Hint) (st0 : RState) :
    Except DeErr (Out × Nat) :=
  -- `Avro.Impl.deFuel`: the historical formula, never below `fuelBound cfg S hint depth` (C04)
  let fuel := deFuel cfg S hint depth st0.rest.length
  let (r, st) := de deExtModel cfg S fuel root depth false hint st0
  match r with
  | .ok o => .ok (o, st.rest.length)
  | .error e => .error e

def fmtDe : Except DeErr (Out × Nat) → String
  | .ok (o, left) => s!"ok {outToString o} left {left}"
  | .error .custom => "err custom"
  | .error .io => "err io"
  | .error .panic => "panic"

/-- `de <backend> <maxSeq> <depth> <schema> <hint> <bytes>` → `ok <out> left <n>` / `err <class>`. -/
def runDe : P String := do
  let mk ← pBackend (fun b => { rest := b })
  let maxSeq ← pNat
  let depth ← pNat
  let sm ← pSchemaMut
  let hint ← pHint
  let bs ← pBytes
  let S := freezeNodes sm
  match S[0]? with
  | none => pure "noroot"
  | some root =>
    let cfg : DeConfig := { maxSeqSize := maxSeq, allowedDepth := depth }
    -- `rust_decimal::Decimal::to_f64` is a parameter of the model without an executable stand-in
    let decimalAsF64 := (match hint with | .f64 => true | _ => false) &&
      (match root with | .decimal _ _ _ | .bigDecimal => true | _ => false)
    if decimalAsF64 then pure "skip decimal read through deserialize_f64 (rust_decimal::to_f64 not modelled)" else
    pure (fmtDe (deOne cfg S root depth hint (mk bs)))

/-- longest sequence / map delivered anywhere in an outcome -/
partial def longestSeq : Out → Nat
  | .some o => longestSeq o
  | .seq items => items.foldl (fun m o => max m (longestSeq o)) items.length
  | .map es => es.foldl (fun m (k, v) => max m (max (longestSeq k) (longestSeq v))) es.length
  | .variant n p => max (longestSeq n) (longestSeq p)
  | _ => 0

/-- drop the `borrowed` flags: the only difference allowed between back-ends on success -/
partial def unborrow : Out → Out
  | .str s _ => .str s false
  | .bytes b _ => .bytes b false
  | .some o => .some (unborrow o)
  | .seq items => .seq (items.map unborrow)
  | .map es => .map (es.map fun (k, v) => (unborrow k, unborrow v))
  | .variant n p => .variant (unborrow n) (unborrow p)
  | o => o

/-- hinted result vs full result: ignored parts (`unit`) match anything, a unit variant matches
    whatever the branch held, a newtype variant's payload matches the branch's value -/
partial def consistentOut : Out → Out → Bool
  | .unit, _ => true
  | .variant _ .unit, _ => true
  | .variant _ p, full => consistentOut p full
  | .seq a, .seq b => a.length == b.length && (a.zip b).all fun (x, y) => consistentOut x y
  | .map a, .map b =>
    a.length == b.length && (a.zip b).all fun ((k1, v1), (k2, v2)) => consistentOut k1 k2 && consistentOut v1 v2
  | .some a, .some b => consistentOut a b
  | a, b => outToString (unborrow a) == outToString (unborrow b)

/-- `judge-de <k> <implementation outcome> <backend> <maxSeq> <depth> <schema> <hint> <bytes>`:
    the C03/C04 oracle applied to the *implementation's* outcome (used only to turn a model/code
    disagreement into a failing input of the property): an `Ok` must deliver what the
    specification's decoder reads from these bytes, leave the same bytes unread, and hold no
    sequence longer than `max_seq_size`; with unbounded limits a valid encoding read in full by a
    self-describing target must not be rejected. -/
def runJudgeDe : P String := do
  let outcome ← (do
    let n ← pNat
    let toks ← (List.range n).mapM fun _ => tok
    match pDeOutcome.run toks with
    | .ok (o, _) => pure o
    | .error e => throw e : P (Except DeErr (Out × Nat)))
  let _mk ← pBackend (fun b => { rest := b })
  let maxSeq ← pNat
  let depth ← pNat
  let sm ← pSchemaMut
  let hint ← pHint
  let bs ← pBytes
  let S := freezeNodes sm
  match S[0]? with
  | none => pure "judged # ok"
  | some root =>
    let spec := Spec.decode S (4 * bs.length + 4 * S.size + 64) root bs
    let isAny := match hint with | .any => true | _ => false
    let verdict := match outcome with
      | .error .panic => "VIOLATION panic or abort"
      | .ok (o, left) =>
        if longestSeq o > maxSeq then "VIOLATION Ok with a sequence longer than max_seq_size"
        else match spec with
          | none => if isAny then "VIOLATION Ok on bytes that are not a valid encoding under the schema" else "ok"
          | some (v, rest) =>
            (match Spec.observe S root v with
              | none => "ok"
              | some e =>
                -- (every target: `C12_typed_consumes_all` - a typed read that succeeds has consumed
                -- exactly the datum)
                if left ≠ rest.length then "VIOLATION Ok but a different number of bytes consumed than the encoding holds"
                else if !consistentOut o e then "VIOLATION Ok with a value that differs from the encoded one"
                else "ok")
      | .error _ =>
        match spec with
        | some (v, _) =>
          -- a valid encoding within the limits, which a faithful deserializer reads under this
          -- very hint (the model does, delivering the specification's value)
          (match Spec.observe S root v, deOne { maxSeqSize := maxSeq, allowedDepth := depth } S root depth hint (_mk bs) with
            | some e, .ok (om, _) =>
              if longestSeq e ≤ maxSeq && consistentOut om e then "VIOLATION a valid encoding was rejected" else "ok"
            | _, _ => "ok")
        | none => "ok"
    pure s!"judged # {verdict}"

/-- `skip <backend> <schema> <hint> <bytes>`: a target that ignores parts of the datum.
    Oracle (C12): when the full read succeeds, the partial read succeeds, leaves exactly the same
    bytes unread, and every part it did read is what the full read delivered there. -/
def runSkip : P String := do
  let mk ← pBackend (fun b => { rest := b })
  let sm ← pSchemaMut
  let hint ← pHint
  let bs ← pBytes
  let S := freezeNodes sm
  match S[0]? with
  | none => pure "noroot"
  | some root =>
    let a := deOne {} S root 64 hint (mk bs)
    let b := deOne {} S root 64 .any (mk bs)
    let verdict := match a, b with
      | .ok (oa, la), .ok (ob, lb) =>
        if la ≠ lb then "VIOLATION skipping consumed a different number of bytes than reading"
        else if !consistentOut oa ob then "VIOLATION a value read next to an ignored part differs from the full read"
        else "ok"
      | .error _, .ok _ => "VIOLATION the full read succeeds but the read that ignores parts fails"
      | _, .error _ => "n/a the encoding is not readable in full"
    pure s!"{fmtDe a} | {fmtDe b} # {verdict}"

/-- `judge-skip <k> <implementation outcome: partial | full> <case>`: the C12 oracle on the
    implementation's own two outcomes. -/
def runJudgeSkip : P String := do
  let toks ← pList tok
  let (ta, tb) := (toks.takeWhile (· ≠ "|"), (toks.dropWhile (· ≠ "|")).drop 1)
  let verdict := match pDeOutcome.run ta, pDeOutcome.run tb with
    | .ok (a, _), .ok (b, _) =>
      (match a, b with
      | .error .panic, _ | _, .error .panic => "VIOLATION panic or abort"
      | .ok (oa, la), .ok (ob, lb) =>
        if la ≠ lb then "VIOLATION skipping consumed a different number of bytes than reading"
        else if !consistentOut oa ob then "VIOLATION a value read next to an ignored part differs from the full read"
        else "ok"
      | .error _, .ok _ => "VIOLATION the full read succeeds but the read that ignores parts fails"
      | _, .error _ => "ok")
    | _, _ => "ok"
  pure s!"judged # {verdict}"

/-- `dealloc <maxSeq> <depth> <schema> <bytes>`: slice input, `IgnoredAny` target. The model's slice
    back-end has no buffer at all; the oracle is that the real code made no heap allocation. -/
def runDealloc : P String := do
  let maxSeq ← pNat
  let depth ← pNat
  let sm ← pSchemaMut
  let bs ← pBytes
  let S := freezeNodes sm
  match S[0]? with
  | none => pure "noroot"
  | some root =>
    let cfg : DeConfig := { maxSeqSize := maxSeq, allowedDepth := depth }
    -- optional trailing hint: a scalar target really decodes the value (nothing is skipped)
    let hint ← (do
      match (← peek) with
      | none => pure Hint.ignored
      | some _ => pHint : P Hint)
    match deOne cfg S root depth hint { rest := bs } with
    | .ok (_, left) => pure s!"ok left {left} allocs=0"
    | .error .custom => pure "err custom"
    | .error .io => pure "err io"
    | .error .panic => pure "panic"

/-- outcome up to what C11 allows to differ: the error class and the `borrowed` flags -/
def c11Key : Except DeErr (Out × Nat) → String
  | .ok (o, left) => s!"ok {outToString (unborrow o)} left {left}"
  | .error .panic => "panic"
  | .error _ => "err"

/-- `c11 <maxSeq> <depth> <schema> <hint> <bytes> <k> <backend>*k`: one input through several
    back-ends; oracle: all outcomes are the same value (or all errors) with the same bytes left. -/
def runC11 : P String := do
  let maxSeq ← pNat
  let depth ← pNat
  let sm ← pSchemaMut
  let hint ← pHint
  let bs ← pBytes
  let mks ← pList (pBackend (fun b => { rest := b }))
  let S := freezeNodes sm
  match S[0]? with
  | none => pure "noroot"
  | some root =>
    let cfg : DeConfig := { maxSeqSize := maxSeq, allowedDepth := depth }
    let rs := mks.map fun mk => deOne cfg S root depth hint (mk bs)
    let keys := rs.map c11Key
    let verdict := match keys with
      | [] => "ok"
      | k :: rest => if rest.all (· == k) then "ok" else "VIOLATION slice and streamed input decode differently"
    pure (" ; ".intercalate (rs.map fmtDe) ++ " # " ++ verdict)

/-- `rt <allowSlow> <schema> <sv> [ext]`: a conforming value in a branch-determining presentation
    is serialized, then deserialized by a dynamically typed target. Oracle (C01): serialization
    succeeds, the bytes decode (specification) to a value `v` the presentation denotes, and the
    target receives exactly `observe v`. -/
def runRt : P String := do
  let flags ← pNat
  let allowSlow := flags % 2 ≠ 0
  -- bit 1: a type-directed presentation, which need not determine a branch
  let typeDirected := flags / 2 % 2 ≠ 0
  let sm ← pSchemaMut
  let sv ← pSV
  let ext ← pExtEntries {}
  let S := freezeNodes sm
  match S[0]? with
  | none => pure "noroot"
  | some root =>
    let (r, st) := ser ext.toExt allowSlow S root sv {}
    match r with
    | .error .panic => pure "panic # VIOLATION panic"
    | .error _ =>
      if typeDirected then pure "err # n/a the presentation does not determine a branch (or does not fit)"
      else pure "err # VIOLATION a conforming value in a branch-determining presentation was rejected"
    | .ok _ =>
      let bs := st.out
      let dres := deOne {} S root 64 .any { rest := bs }
      let verdict :=
        if !schemaNamesDistinct S then "n/a duplicate field names or symbols" else
        match Spec.decode S (4 * bs.length + 4 * S.size + 64) root bs with
        | some (v, []) =>
          if !Spec.denotes ext.toDenExt S root sv v then "VIOLATION bytes decode to a value the presentation does not denote"
          else
            (match dres, Spec.observe S root v with
            | .ok (o, 0), some expected =>
              if outToString o = outToString expected then "ok"
              else "VIOLATION the value read back differs from the value written"
            | .ok _, none => "n/a decimal outside the documented limits"
            | .ok (_, _), some _ => "VIOLATION deserialization left bytes unread"
            | .error _, some _ => "VIOLATION the bytes written do not read back"
            | .error _, none => "n/a decimal outside the documented limits")
        | _ => "VIOLATION Ok(bytes) but the bytes do not decode under the specification"
      pure s!"ok {bytesToHex bs} | {fmtDe dres} # {verdict}"

/-- `judge-rt <k> <implementation outcome> <allowSlow> <schema> <sv> [ext]`: the C01 oracle applied
    to the implementation's outcome `ok <hex> | <de outcome>` / `err`. -/
def runJudgeRt : P String := do
  let n ← pNat
  let toks ← (List.range n).mapM fun _ => tok
  let flags ← pNat
  let allowSlow := flags % 2 ≠ 0
  let typeDirected := flags / 2 % 2 ≠ 0
  let sm ← pSchemaMut
  let sv ← pSV
  let ext ← pExtEntries {}
  let S := freezeNodes sm
  match S[0]?, toks with
  | none, _ => pure "judged # ok"
  | some root, "err" :: _ =>
    -- type-directed: an error is legitimate unless the verified model serializes the value
    let (r, _) := ser ext.toExt allowSlow S root sv {}
    if typeDirected && (match r with | .ok _ => false | .error _ => true) then pure "judged # ok"
    else pure "judged # VIOLATION a conforming value in a branch-determining presentation was rejected"
  | some _, "panic" :: _ | some _, "abort" :: _ => pure "judged # VIOLATION panic or abort"
  | some root, "ok" :: h :: "|" :: rest =>
    (match hexToBytes h.toList, pDeOutcome.run rest with
    | some bs, .ok (dres, _) =>
      let verdict :=
        if !schemaNamesDistinct S then "ok" else
        match Spec.decode S (4 * bs.length + 4 * S.size + 64) root bs with
        | some (v, []) =>
          if !Spec.denotes ext.toDenExt S root sv v then "VIOLATION bytes decode to a value the presentation does not denote"
          else
            (match dres, Spec.observe S root v with
            | .ok (o, 0), some expected =>
              if outToString o = outToString expected then "ok"
              else "VIOLATION the value read back differs from the value written"
            | .ok _, none => "ok"
            | .ok (_, _), some _ => "VIOLATION deserialization left bytes unread"
            | .error _, some _ => "VIOLATION the bytes written do not read back"
            | .error _, none => "ok")
        | _ => "VIOLATION Ok(bytes) but the bytes do not decode under the specification"
      -- exactness: where the model's round trip is exact, the value read back must be that value
      -- (a less exact branch — float for an f64 next to a double, string for an enum symbol — still
      -- "denotes" under the documented conversions but does not give the value back)
      let verdict :=
        if verdict ≠ "ok" then verdict else
        let (r, st) := ser ext.toExt allowSlow S root sv {}
        match r, dres with
        | .ok _, .ok (o, _) =>
          (match deOne {} S root 64 .any { rest := st.out } with
            | .ok (om, 0) =>
              if outToString (unborrow om) = outToString (unborrow o) then "ok"
              else "VIOLATION the value read back is not the value a faithful round trip delivers (another union branch was selected than the best-suited one)"
            | _ => "ok")
        | _, _ => "ok"
      pure s!"judged # {verdict}"
    | _, _ => pure "judged # ok")
  | _, _ => pure "judged # ok"

section DeriveCmd
open Avro.Impl.Derive

/-- fullnames of the named nodes of a graph, in node order -/
def definedNames (S : SchemaMut) : List String :=
  S.toList.filterMap fun n => match n.type with
    | .record nm _ | .enum nm _ | .fixed nm _ => some nm.fq
    | _ => none

def allDistinct : List String → Bool
  | [] => true
  | a :: rest => !rest.contains a && allDistinct rest

/-- `derive <program> <root type> <k> <sv>*`: a family of type definitions deriving the schema
    builder, and values of the root type as serde presents them. The model builds the schema
    (`Derive.schemaMut`); the SipHash suffixes of generic records are labelled `H<k>` in order of
    first appearance in the node list, as the harness relabels the real ones.
    Oracle (C20): the build succeeds; every key is in bounds; one definition per fullname; the
    regenerated JSON parses back; it freezes; every value has the shape serde's derive gives the
    type (validates that parameter); it serializes; the bytes decode under the specification to a
    value the presentation denotes; and they read back to that value. -/
def runDerive : P String := do
  let P ← pProg
  let root ← pTy
  let svs ← pList pSV
  let fuel := 64 * (P.size + 4)
  let keyStr := fun (k : Key) => toString (repr k)
  match schemaMut P (fun k => "⟦" ++ keyStr k ++ "⟧") fuel root with
  | none => pure "build-failed # VIOLATION building the schema failed (assertion or dangling type)"
  | some S0 =>
    -- label the hashes in order of first appearance
    let labels : List String := (definedNames S0).foldl (fun acc nm =>
      ((nm.splitOn "⟦").drop 1).foldl (fun acc p =>
        let k := (p.splitOn "⟧").headD ""
        if acc.contains k then acc else acc ++ [k]) acc) []
    let hash := fun (k : Key) => "H" ++ toString (labels.idxOf (keyStr k))
    match schemaMut P hash fuel root with
    | none => pure "build-failed # VIOLATION building the schema failed"
    | some S =>
      let n := S.size
      let gfuel := graphFuel S
      let distinct := allDistinct (definedNames S)
      let jsonOk := match renderJson S gfuel with
        | .ok j => (match parseJson j (4 * jsonSize j + 8) with | .ok _ => true | .error _ => false)
        | .error _ => false
      let jsonS := match renderJson S gfuel with
        | .ok _ => if jsonOk then "json-ok" else "json-REJECTED"
        | .error _ => "json-err"
      let frz := match freeze S false gfuel with | .ok _ => true | .error _ => false
      let head := s!"nodes {schemaMutToString S} det {jsonS} {if frz then "schema-ok" else "schema-err"}"
      let F := freezeNodes S
      match F[0]?, frz with
      | some rootNode, true =>
        let results := svs.map fun sv =>
          let shape := hasShape P (64 * (P.size + 4)) root sv
          let (r, st) := ser ({} : ExtTable).toExt false F rootNode sv {}
          match r with
          | .error .panic => ("panic", "VIOLATION panic", shape)
          | .error _ => ("err", "VIOLATION a value of the type does not serialize under the derived schema", shape)
          | .ok _ =>
            let bs := st.out
            let dres := deOne {} F rootNode 64 .any { rest := bs }
            let verdict :=
              match Spec.decode F (4 * bs.length + 4 * F.size + 64) rootNode bs with
              | some (v, []) =>
                if !Spec.denotes ({} : ExtTable).toDenExt F rootNode sv v then "VIOLATION bytes decode to a value the presentation does not denote"
                else
                  (match dres, Spec.observe F rootNode v with
                  | .ok (o, 0), some expected =>
                    if outToString o = outToString expected then "ok"
                    else "VIOLATION the value read back differs from the value written"
                  | .ok _, none => "ok"
                  | .ok (_, _), some _ => "VIOLATION deserialization left bytes unread"
                  | .error _, _ => "VIOLATION the bytes written do not read back")
              | _ => "VIOLATION Ok(bytes) but the bytes do not decode under the specification"
            (s!"ok {bytesToHex bs} {if verdict = "ok" then "rt-eq" else "rt-FAIL"}", verdict, shape)
        let body := String.join (results.map fun (o, _, _) => " ; " ++ o)
        let verdict :=
          if !S.keysInBounds then "VIOLATION a key outside the node vector"
          else if !distinct then "VIOLATION a fullname is defined twice in the derived schema"
          else if !jsonOk then "VIOLATION the JSON of the derived schema does not parse back"
          else match results.find? (fun (_, v, _) => v ≠ "ok") with
            | some (_, v, _) => v
            | none =>
              if results.all (fun (_, _, sh) => sh) then "ok"
              else "VIOLATION a captured value does not have the shape the model of serde's derive gives its type (model parameter)"
        pure s!"{head}{body} # {verdict}"
      | _, _ =>
        pure s!"{head} # VIOLATION the derived schema does not freeze"

end DeriveCmd

def poolToString (p : Pool) : String :=
  let bs := p.buffers.reverse.map fun b => toString b.data.length
  let ss := p.superBuffers.reverse.map fun b => toString b.slots.length
  s!"pool {",".intercalate bs} {",".intercalate ss}"

/-- `reuse <allowSlow> <schema> <n> (<budget|-> <sv>)* [ext]`: a history on one configuration.
    Oracle (C14): every result equals the result on a fresh configuration; the pool stays clean;
    no panic. -/
def runReuse : P String := do
  let allowSlow := (← pNat) ≠ 0
  let sm ← pSchemaMut
  let ops ← pList (do let b ← pOptNat; let v ← pSV; pure (b, v))
  let ext ← pExtEntries {}
  let S := freezeNodes sm
  match S[0]? with
  | none => pure "noroot"
  | some root =>
    let fmt := fun (r : Except SerErr Unit) (out : Bytes) => match r with
      | .ok _ => s!"ok {bytesToHex out}"
      | .error .panic => "panic"
      | .error _ => "err"
    let step := fun (acc : Pool × List String × List String × Bool) (op : Option Nat × SV) =>
      let (pool, outs, problems, dead) := acc
      if dead then acc else
      let (r, st) := ser ext.toExt allowSlow S root op.2 { budget := op.1, pool := pool }
      let (r0, st0) := ser ext.toExt allowSlow S root op.2 { budget := op.1 }
      let o := fmt r st.out
      let o0 := fmt r0 st0.out
      let clean := st.pool.buffers.all (·.data.isEmpty) && st.pool.superBuffers.all (·.slots.isEmpty)
      let problems := problems
        ++ (if o ≠ o0 then ["a reused configuration gave a different result than a fresh one"] else [])
        ++ (if !clean then ["a buffer was returned to the pool without being cleared"] else [])
        ++ (if o = "panic" then ["panic on an internal consistency assertion"] else [])
      if o = "panic" then (st.pool, outs ++ ["panic"], problems, true)
      else (st.pool, outs ++ [s!"{o} {poolToString st.pool}"], problems, false)
    let (_, outs, problems, _) := ops.foldl step ({}, [], [], false)
    let verdict := match problems with | [] => "ok" | p :: _ => s!"VIOLATION {p}"
    pure (" ; ".intercalate outs ++ " # " ++ verdict)

/-- `perm <allowSlow> <schema> <k> sv* <j> sv* [ext]`: the first group are presentations of one
    record in different orders/shapes (omitting null nullable fields): all must give the bytes of
    the first; the second group are injections (unknown / duplicated / missing field) that must be
    rejected. -/
def runPerm : P String := do
  let allowSlow := (← pNat) ≠ 0
  let sm ← pSchemaMut
  let same ← pList pSV
  let bad ← pList pSV
  let ext ← pExtEntries {}
  let S := freezeNodes sm
  match S[0]? with
  | none => pure "noroot"
  | some root =>
    let one := fun (pool : Pool) (sv : SV) =>
      let (r, st) := ser ext.toExt allowSlow S root sv { pool := pool }
      (match r with
        | .ok _ => s!"ok {bytesToHex st.out}"
        | .error .panic => "panic"
        | .error _ => "err", st.pool)
    let run := fun (svs : List SV) (pool : Pool) =>
      svs.foldl (fun (acc : List String × Pool) sv => let (o, p) := one acc.2 sv; (acc.1 ++ [o], p)) ([], pool)
    let (a, pool) := run same {}
    let (b, pool) := run bad pool
    -- the same presentations once more, on the configuration the rejected ones went through
    let (a2, _) := run same pool
    let verdict :=
      if (a ++ b ++ a2).contains "panic" then "VIOLATION panic"
      else match a with
        | [] => "ok"
        | first :: rest =>
          if !first.startsWith "ok" then "n/a the in-order presentation is rejected"
          else if !rest.all (· == first) then "VIOLATION record bytes depend on the order / shape in which fields are presented"
          else if !b.all (· == "err") then "VIOLATION an unknown, duplicated or missing field was accepted"
          else if !a2.all (· == first) then "VIOLATION record bytes depend on the order / shape in which fields are presented (after rejected presentations)"
          else "ok"
    pure (" ; ".intercalate a ++ " | " ++ " ; ".intercalate b ++ " | " ++ " ; ".intercalate a2 ++ " # " ++ verdict)

/-- The specification's own transformation of the document (`Spec/Pcf.lean`, the transcription
    `C08_pcf_is_spec` is about) as a second, independent C08 oracle: when the document has no
    forward reference and the transformation is defined on it, the canonical form must be its
    text. `none` = the oracle does not apply. -/
def specPcfOf (j : Json) : Option String :=
  if Avro.Spec.Pcf.noForwardRefs j then Avro.Spec.Pcf.parsingCanonicalForm j else none

/-- `schema <ok|err|any> <xtext> <json> <xpcf|->`: parse a schema document. Oracle (C07, C08):
    a specification-valid document parses and its Parsing Canonical Form is the one computed on
    the abstract schema by the generator (fullnames resolved per the specification); a document
    of a rejection class is rejected. -/
def runSchema : P String := do
  let expect ← tok
  let _text ← pBytes
  let j ← pJson
  let expected ← (do
    match (← peek) with
    | some "-" => do let _ ← tok; pure none
    | _ => do pure (some (← pStr)) : P (Option String))
  match parseJson j (4 * jsonSize j + 8) with
  | .error .panic => pure "panic # VIOLATION model out of fuel"
  | .error _ =>
    pure (if expect = "ok" then "err # VIOLATION a specification-valid schema document was rejected" else "err # ok")
  | .ok S =>
    let pcfR := canonicalForm S (graphFuel S)
    let pcfStr := match pcfR with
      | .ok p => s!"pcf {strHex p} fp=pcf"
      | .error _ => "pcf-err"
    -- freezing a parsed schema only fails where the canonical form does
    let tail := match pcfR with | .ok _ => "jsonkept" | .error _ => "freeze-err"
    let verdict :=
      if expect = "err" then "VIOLATION a schema document of a rejection class was accepted"
      else match expected, pcfR with
        | some e, .ok p => if e = p then "ok" else "VIOLATION the canonical form differs from the specification's (names resolved differently, or attributes/order not preserved)"
        | some _, .error _ => "VIOLATION no canonical form for a specification-valid document"
        | none, _ => "ok"
    let verdict :=
      if verdict != "ok" || expect = "err" then verdict
      else match specPcfOf j, pcfR with
        | some t, .ok p => if t = p then "ok" else "VIOLATION the canonical form differs from the specification's transformation of the document (Spec.Pcf)"
        | some _, .error _ => "VIOLATION no canonical form although the specification's transformation is defined"
        | none, _ => "ok"
    pure s!"ok {schemaMutToString S} {pcfStr} {tail} # {verdict}"

/-- Bisimilarity of two node graphs from their roots: same kind, same names / symbols / sizes /
    logical types, children pairwise bisimilar (pairs already assumed are not revisited). -/
partial def bisimGo (A B : SchemaMut) : List (Nat × Nat) → List (Nat × Nat) → Bool
  | [], _ => true
  | (i, j) :: todo, seen =>
    if seen.contains (i, j) then bisimGo A B todo seen else
    match A[i]?, B[j]? with
    | some a, some b =>
      if a.logical != b.logical then false else
      let seen := (i, j) :: seen
      (match a.type, b.type with
        | .null, .null | .boolean, .boolean | .int, .int | .long, .long | .float, .float
        | .double, .double | .bytes, .bytes | .string, .string => bisimGo A B todo seen
        | .array x, .array y => bisimGo A B ((x, y) :: todo) seen
        | .map x, .map y => bisimGo A B ((x, y) :: todo) seen
        | .union xs, .union ys => xs.length == ys.length && bisimGo A B (xs.zip ys ++ todo) seen
        | .record n1 f1, .record n2 f2 =>
          n1.fq == n2.fq && f1.map (·.1) == f2.map (·.1)
            && bisimGo A B ((f1.map (·.2)).zip (f2.map (·.2)) ++ todo) seen
        | .enum n1 s1, .enum n2 s2 => n1.fq == n2.fq && s1 == s2 && bisimGo A B todo seen
        | .fixed n1 z1, .fixed n2 z2 => n1.fq == n2.fq && z1 == z2 && bisimGo A B todo seen
        | _, _ => false)
    | _, _ => false

def bisimilar (A B : SchemaMut) : Bool := bisimGo A B [(0, 0)] []

/-- `graph <unique> <schema>`: a node graph assembled through the builder API. Oracle (C09, C19):
    every operation returns; with distinct fullnames the regenerated JSON parses back to a graph
    with the same canonical form, and rendering it again gives the same document. -/
def runGraph : P String := do
  let unique := (← pNat) ≠ 0
  let S ← pSchemaMut
  let n := S.size
  let fuel := graphFuel S
  let pcfR := canonicalForm S fuel
  let jsonR := renderJson S fuel
  let pcfS := match pcfR with | .ok p => s!"pcf {strHex p}" | .error _ => "pcf-err"
  let jsonS := match jsonR with | .ok j => s!"json {jsonToString j}" | .error _ => "json-err"
  let frz := match freeze S false fuel with | .ok _ => "freeze-ok" | .error _ => "freeze-err"
  let (re, verdictRe) : String × String := match jsonR with
    | .error _ => ("", "ok")
    | .ok j =>
      match parseJson j (4 * jsonSize j + 8) with
      | .error _ => ("reparse-err", if unique then "VIOLATION the regenerated JSON does not parse back" else "ok")
      | .ok S2 =>
        let n2 := S2.size
        let fuel2 := graphFuel S2
        let p2 := canonicalForm S2 fuel2
        let p2s := match p2 with | .ok p => s!"pcf2 {strHex p}" | .error _ => "pcf2-err"
        let j2 := renderJson S2 fuel2
        let idem := match j2 with
          | .ok j2 => if jsonToString j2 = jsonToString j then "render-idempotent" else "render-CHANGED"
          | .error _ => "render2-err"
        let v :=
          if !unique then "ok"
          else match pcfR, p2 with
            | .ok a, .ok b =>
              if a ≠ b then "VIOLATION the regenerated JSON denotes a schema with another canonical form"
              else if idem ≠ "render-idempotent" then "VIOLATION rendering the re-parsed schema gives another document (structure or logical types not preserved)"
              else "ok"
            | _, _ => "VIOLATION canonical form unavailable although the JSON was regenerated"
        let v := if v = "ok" ∧ unique ∧ !bisimilar S S2 then
            "VIOLATION the regenerated JSON parses back to a graph that is not isomorphic to the one it was generated from"
          else v
        (s!"reparse-ok {schemaMutToString S2} {p2s} {idem}", v)
  let panics := [pcfR.toOption.isNone && (match pcfR with | .error .panic => true | _ => false),
                 (match jsonR with | .error .panic => true | _ => false)]
  let verdict := if panics.any id then "VIOLATION model out of fuel" else verdictRe
  pure (" ".intercalate ([pcfS, jsonS, frz] ++ (if re = "" then [] else [re])) ++ " # " ++ verdict)

/-- `judge-graph <k> <implementation outcome> <unique> <schema>`: the C09/C10/C19 oracles applied to
    the implementation's own outcome line. -/
def runJudgeGraph : P String := do
  let toks ← pList tok
  let unique := (← pNat) ≠ 0
  let S ← pSchemaMut
  let after (k : String) : Option String :=
    match toks.dropWhile (· ≠ k) with | _ :: v :: _ => some v | _ => none
  let has (k : String) : Bool := toks.contains k
  let verdict :=
    if toks.head? = some "panic" || toks.head? = some "abort" then "VIOLATION panic or abort"
    else if has "freeze-ok" && !S.keysInBounds then
      "VIOLATION freeze accepted a node graph holding a key outside the node vector"
    else if has "freeze-ok" && S.size = 0 then "VIOLATION freeze accepted an empty node graph"
    else if has "freeze-INCONSISTENT" then
      "VIOLATION the frozen schema reports another JSON or fingerprint than the graph it was frozen from"
    else if unique && has "json" && has "pcf" then
      if has "reparse-err" then "VIOLATION the regenerated JSON does not parse back"
      else match after "pcf", after "pcf2" with
        | some a, some b =>
          if a ≠ b then "VIOLATION the regenerated JSON denotes a schema with another canonical form"
          else if has "render-CHANGED" then "VIOLATION rendering the re-parsed schema gives another document"
          else "ok"
        | _, _ => "VIOLATION canonical form unavailable although the JSON was regenerated"
    else "ok"
  pure s!"judged # {verdict}"

/-- `judge-schema <k> <implementation outcome> <expect> <text> <json> <expected pcf|->`: the C07/C08
    oracle (canonical form given by the abstract schema the document was rendered from). -/
def runJudgeSchema : P String := do
  let toks ← pList tok
  let expect ← tok
  let _text ← pBytes
  let j ← pJson
  let expected ← (do
    match (← peek) with
    | some "-" => do let _ ← tok; pure none
    | _ => do pure (some (← pStr)) : P (Option String))
  let after (k : String) : Option String :=
    match toks.dropWhile (· ≠ k) with | _ :: v :: _ => some v | _ => none
  let verdict := match toks.head? with
    | some "panic" | some "abort" => "VIOLATION panic or abort"
    | some "err" => if expect = "ok" then "VIOLATION a specification-valid schema document was rejected" else "ok"
    | some "ok" =>
      if expect = "err" then "VIOLATION a schema document of a rejection class was accepted"
      else (match expected, after "pcf" with
        | some e, some p =>
          if strHex e = p then "ok"
          else "VIOLATION the canonical form differs from the specification's (names resolved differently, or attributes/order not preserved)"
        | some _, none => "VIOLATION no canonical form for a specification-valid document"
        | none, _ => "ok")
    | _ => "ok"
  let verdict :=
    if verdict != "ok" || expect = "err" || toks.head? != some "ok" then verdict
    else match specPcfOf j, after "pcf" with
      | some t, some p => if strHex t = p then "ok" else "VIOLATION the canonical form differs from the specification's transformation of the document (Spec.Pcf)"
      | some _, none => "VIOLATION no canonical form although the specification's transformation is defined"
      | none, _ => "ok"
  pure s!"judged # {verdict}"

/-- `judge-c11 <k> <implementation outcomes separated by ;> <case>`: all back-ends agree. -/
def runJudgeC11 : P String := do
  let toks ← pList tok
  let rec split : List String → List String → List (List String) → List (List String)
    | [], cur, acc => (cur.reverse :: acc).reverse
    | ";" :: rest, cur, acc => split rest [] (cur.reverse :: acc)
    | t :: rest, cur, acc => split rest (t :: cur) acc
  let keys := (split toks [] []).map fun ts =>
    match pDeOutcome.run ts with
    | .ok (o, _) => c11Key o
    | .error _ => "unparsed"
  let verdict := match keys with
    | [] => "ok"
    | k :: rest =>
      if keys.contains "panic" then "VIOLATION panic or abort"
      else if rest.all (· == k) then "ok" else "VIOLATION slice and streamed input decode differently"
  pure s!"judged # {verdict}"

/-- `single <schema> <sv> <other> <k> bytes* [ext]`: single-object encoding. Oracle (C18): the
    message is `C3 01`, the little-endian CRC-64-AVRO (specification) of the canonical form, then
    the datum; it reads back under the schema from slice and reader alike; it is rejected under a
    schema with another canonical form; every header truncation / corruption is rejected. -/
def runSingle : P String := do
  let sm ← pSchemaMut
  let sv ← pSV
  let other ← pSchemaMut
  let variants ← pList pBytes
  let ext ← pExtEntries {}
  let S := freezeNodes sm
  let So := freezeNodes other
  match S[0]?, So[0]?, schemaFingerprint sm (graphFuel sm), schemaFingerprint other (graphFuel other),
        canonicalForm sm (graphFuel sm), canonicalForm other (graphFuel other) with
  | some root, some rootO, .ok fp, .ok fpO, .ok pcfA, .ok pcfB =>
    let readBoth := fun (bytes : Bytes) (fpX : Bytes) (Sx : Schema) (rootX : Node) =>
      let datum := fun (st : RState) =>
        let fuel := deFuel {} Sx .any 64 st.rest.length
        de deExtModel {} Sx fuel rootX 64 false .any st
      let fmt := fun (r : Except DeErr Out × RState) => match r.1 with
        | .ok o => s!"ok {outToString o}"
        | .error .custom => "err custom" | .error .io => "err io" | .error .panic => "panic"
      let a := fmt (fromSingleObject fpX datum { rest := bytes })
      let b := fmt (fromSingleObject fpX datum { isSlice := false, rest := bytes, lastChunk := 1 })
      (s!"{a} / {b}", a, b)
    let (r, st) := toSingleObject fp (ser ext.toExt false S root sv) {}
    match r with
    | .error _ => pure "ser-err # n/a"
    | .ok _ =>
      let msg := st.out
      let datumBytes := (ser ext.toExt false S root sv {}).2.out
      let (o1, a1, b1) := readBoth msg fp S root
      let (o2, a2, _) := readBoth msg fpO So rootO
      let vs := variants.map fun b => readBoth b fp S root
      let problems : List String :=
        (if msg ≠ [0xC3, 0x01] ++ Spec.fingerprintLE pcfA.toUTF8.data.toList ++ datumBytes
          then ["the message is not C3 01 ++ CRC-64-AVRO(canonical form) ++ datum"] else [])
        ++ (if !a1.startsWith "ok" &&
              -- (the same domain as C01: a datum holding a decimal outside the documented limits
              -- - `Spec.observe` undefined - need not read back)
              (match Spec.decode S (4 * datumBytes.length + 4 * S.size + 64) root datumBytes with
                | some (v, []) => (Spec.observe S root v).isSome
                | _ => true)
            then ["the message does not read back under its schema"] else [])
        ++ (if unborrowStr a1 ≠ unborrowStr b1 then ["slice and reader disagree on a single-object message"] else [])
        ++ (if pcfA ≠ pcfB ∧ a2.startsWith "ok" ∧ fp ≠ fpO then ["decoded under a schema with another fingerprint"] else [])
        ++ (if pcfA ≠ pcfB ∧ fp = fpO then ["n/a CRC collision between distinct canonical forms"] else [])
        ++ ((variants.zip vs).filterMap fun (b, (_, a, bb)) =>
              if b.length < 10 ∧ (a.startsWith "ok" ∨ bb.startsWith "ok") then some "input shorter than the header was accepted"
              else if b.take 10 ≠ msg.take 10 ∧ b.length ≥ 10 ∧ (a.startsWith "ok" ∨ bb.startsWith "ok") then some "a corrupted header was accepted"
              else none)
      let verdict := match problems with | [] => "ok" | p :: _ => s!"VIOLATION {p}"
      pure (" ; ".intercalate ([s!"ser {bytesToHex msg}", o1, o2] ++ vs.map (·.1)) ++ " # " ++ verdict)
  | _, _, _, _, _, _ => pure "skip no canonical form"
where
  /-- compare outcomes up to the `borrowed` flags -/
  unborrowStr (s : String) : String := (s.replace " 1" " 0")

/-- `api <op>*`: a history of safe API calls around schemas and container readers (C10). The
    ownership model predicts which calls are expressible and that no pointer into a freed schema
    is ever used; the data results are fixed (`u1`, `v1 v2 v3 eof`). -/
def runApi : P String := do
  let ops ← get
  set ([] : List String)
  let numOf (op pre : String) : Option Nat :=
    if op.startsWith pre then (op.drop pre.length).toNat? else none
  let step := fun (acc : Lifetimes.St × List Nat × List Nat × List String) (op : String) =>
    -- kinds: per handle (100 = builder-made recursive schema), reads: per reader
    let (st, kinds, reads, outs) := acc
    let live (h : Nat) : Bool := match st.handles[h]? with | some (some _) => true | _ => false
    let rlive (r : Nat) : Bool := match st.readers[r]? with | some rd => rd.arcHeld | none => false
    match numOf op "new" with
    | some k => (Lifetimes.step st .newSchema, kinds ++ [k % 4], reads, outs ++ ["ok"])
    | none =>
    if op = "bad" then (st, kinds, reads, outs ++ ["err"]) else
    if op = "cyc" then (Lifetimes.step st .newSchema, kinds ++ [100], reads, outs ++ ["ok"]) else
    match numOf op "clone" with
    | some h =>
      if live h then (Lifetimes.step st (.cloneArc h), kinds ++ [kinds[h]?.getD 0], reads, outs ++ ["ok"])
      else (st, kinds, reads, outs ++ ["-"])
    | none =>
    match numOf op "dropr" with
    | some r =>
      if rlive r then (Lifetimes.step st (.dropReader r), kinds, reads, outs ++ ["ok"])
      else (st, kinds, reads, outs ++ ["-"])
    | none =>
    match numOf op "drop" with
    | some h =>
      if live h then (Lifetimes.step st (.dropHandle h), kinds, reads, outs ++ ["ok"])
      else (st, kinds, reads, outs ++ ["-"])
    | none =>
    match numOf op "use" with
    | some h =>
      if live h then (Lifetimes.step st (.useHandle h), kinds, reads, outs ++ ["u1"])
      else (st, kinds, reads, outs ++ ["-"])
    | none =>
    match numOf op "thr" with
    | some h =>
      if live h ∧ kinds[h]?.getD 0 < 100 then (Lifetimes.step st (.useHandle h), kinds, reads, outs ++ ["u1"])
      else (st, kinds, reads, outs ++ ["-"])
    | none =>
    match numOf op "open" with
    | some _ => (Lifetimes.step st .openReader, kinds, reads ++ [0], outs ++ ["ok"])
    | none =>
    match numOf op "rs" with
    | some r =>
      if rlive r then (Lifetimes.step st (.readerSchema r), kinds ++ [0], reads, outs ++ ["ok"])
      else (st, kinds, reads, outs ++ ["-"])
    | none =>
    match numOf op "read" with
    | some r =>
      if rlive r then
        let n := reads[r]?.getD 0
        let o := if n < 3 then s!"v{n + 1}" else "eof"
        (Lifetimes.step st (.readNext r), kinds, reads.set r (n + 1), outs ++ [o])
      else (st, kinds, reads, outs ++ ["-"])
    | none => (st, kinds, reads, outs ++ ["bad-op"])
  let (st, _, _, outs) := ops.foldl step ({}, [], [], [])
  let verdict := if st.useAfterFree then "VIOLATION the ownership model reaches a use of a freed schema" else "ok"
  pure (" ".intercalate outs ++ " # " ++ verdict)

/-! ### Container writer histories -/

open Avro.Impl.Ocf in
def pSinkResp : P SinkResp := do
  let t ← tok
  match t.toList with
  | ['i'] => pure .interrupted
  | ['e'] => pure .hardError
  | 'a' :: ds => match (String.ofList ds).toNat? with
    | some k => pure (.accept k)
    | none => throw s!"bad sink response {t}"
  | _ => throw s!"bad sink response {t}"

inductive WCase
  | val (sv : SV) | push (b : Bytes) (n : Nat) | finish | into | drop

def pWCase : P WCase := do
  let t ← tok
  match t with
  | "val" => do pure (.val (← pSV))
  | "push" => do let b ← pBytes; let n ← pNat; pure (.push b n)
  | "finish" => pure .finish
  | "into" => pure .into
  | "drop" => pure .drop
  | _ => throw s!"unknown writer op {t}"

/-- status of a sink as the independent parser sees it: blocks, values, trailing bytes -/
def sinkStatus (isNull : Bool) (sink : Bytes) : String :=
  match Spec.Ocf.parse sink with
  | none => s!"unparseable" ++ (if isNull then s!"L{sink.length}" else "")
  | some v =>
    let vals := (v.blocks.map (·.count)).foldl (· + ·) 0
    s!"B{v.blocks.length}V{vals}T{if v.trailing = 0 then 0 else 1}{if v.badSync then "X" else ""}"
      ++ (if isNull then s!"L{sink.length}" else "")

def viewToString (v : Spec.Ocf.View) : String :=
  s!"H {v.metadata.length}" ++ String.join (v.metadata.map fun (k, x) => s!" x{bytesToHex k} x{bytesToHex x}")
    ++ s!" S x{bytesToHex v.sync} B {v.blocks.length}"
    ++ String.join (v.blocks.map fun b => s!" {b.count} x{bytesToHex b.data}")
    ++ s!" T {v.trailing}"

/-- `judge-ocfw <k> <implementation outcome> <case>`: C15/C16 on the implementation's own call
    results and final sink view — when the last operation (`into_inner`) returned Ok and the sink is
    a complete container file, it holds at least every object whose call returned Ok (a sink error
    reported once may not make later calls "succeed" over a lost block). -/
def runJudgeOcfw : P String := do
  let toks ← pList tok
  let _codecName ← tok
  let _approx ← pNat
  let _debug ← pNat
  let _sm ← pSchemaMut
  let _json ← pBytes
  let _userMeta ← pList (do let k ← pBytes; let v ← pBytes; pure (k, v))
  let _sync ← pBytes
  let _sched ← pList pSinkResp
  let ops ← pList pWCase
  let calls := toks.takeWhile (· ≠ ";")
  let view := (toks.dropWhile (· ≠ ";")).drop 1
  -- objects acknowledged by Ok
  let acked := ((ops.zip calls).map fun (op, c) =>
    if c.startsWith "ok" then (match op with | .val _ => 1 | .push _ n => n | _ => 0) else 0).foldl (· + ·) 0
  -- objects in the final view: `… B n (count xdata)* T t`
  let afterB := (view.dropWhile (· ≠ "B")).drop 1
  let verdict := match afterB with
    | nStr :: rest =>
      let n := nStr.toNat?.getD 0
      let counts := (List.range n).map fun i => ((rest[2 * i]?).bind (·.toNat?)).getD 0
      let total := counts.foldl (· + ·) 0
      let trailing := ((rest.drop (2 * n)).dropWhile (· ≠ "T")).drop 1 |>.head? |>.bind (·.toNat?) |>.getD 1
      let lastOk := match calls.getLast?, ops.getLast? with
        | some c, some .into => c.startsWith "ok"
        | _, _ => false
      if calls.any (fun c => c.startsWith "panic" || c.startsWith "abort") then "VIOLATION panic or abort"
      else if lastOk && calls.length = ops.length && trailing = 0 && total < acked then
        "VIOLATION into_inner returned Ok but the file lacks objects whose calls returned Ok (a block was lost after a sink error that was reported only once)"
      else "ok"
    | [] => "ok"
  pure s!"judged # {verdict}"

/-- `ocfw <codec> <approx> <debug> <schema> <xjson> <nmeta (k v)*> <xsync> <nsched resp*> <nops op*> [ext]` -/
def runOcfw : P String := do
  let codecName ← tok
  let approx ← pNat
  let debug := (← pNat) ≠ 0
  let sm ← pSchemaMut
  let json ← pBytes
  let userMeta ← pList (do let k ← pBytes; let v ← pBytes; pure (k, v))
  let sync ← pBytes
  let sched ← pList pSinkResp
  let ops ← pList pWCase
  let ext ← pExtEntries {}
  let S := freezeNodes sm
  match S[0]? with
  | none => pure "noroot"
  | some root =>
    let isNull := codecName = "null"
    -- the model is codec-agnostic: block data is kept uncompressed (identity codec); the harness
    -- decompresses what the crate wrote before comparing (law L1 is checked there)
    let codec : Ocf.Codec := { name := codecName, compress := id, isNull := isNull }
    -- header: one plain `write_all`
    let hdr := Ocf.headerBytes json codecName.toUTF8.data.toList userMeta sync
    let sink0 : Ocf.Sink := { sched := sched }
    let (hr, sink1) := Ocf.writeAllPlain (Ocf.sinkFuel sink0 [hdr]) hdr sink0
    match hr with
    | .error _ => pure s!"build-err {sinkStatus isNull sink1.data}"
    | .ok _ =>
    let w0 : Ocf.WState := { approx := approx, sync := sync, sink := sink1 }
    -- run the history; record per op (result, sink status), datums of successes, flush points
    let step := fun (acc : Ocf.WState × List String × List (Bytes × Nat) × List String × Bool × Bool) (op : WCase) =>
      let (w, outs, succ, problems, dead, sinkFailed) := acc
      if dead then acc else
      let (wop, add) : Ocf.WOp × Option (Bytes × Nat) := match op with
        | .val sv =>
          let (r, st) := ser ext.toExt false S root sv {}
          (match r with
            | .ok _ => (.value (some st.out), some (st.out, 1))
            | .error _ => (.value none, none))
        | .push b n => (.push b n, some (b, n))
        | .finish => (.finishBlock, none)
        | .into => (.intoInner, none)
        | .drop => (.drop, none)
      let (r, w') := Ocf.wstep codec debug w wop
      let rs := match r with | .ok _ => "ok" | .error .panic => "panic" | .error _ => "err"
      let succ' := match r, add with
        | .ok _, some a => succ ++ [a]
        | _, _ => succ
      -- C15 oracle on the sink after a call that returned without error
      let sinkFailed' := sinkFailed || (match r with | .error .io => true | _ => false)
      let problems' :=
        if sinkFailed' then problems else
        match r with
        | .ok _ =>
          (match Spec.Ocf.parse w'.sink.data with
            | none => problems ++ ["sink is not a container file after a successful call"]
            | some v =>
              let data := (v.blocks.map (·.data)).flatten
              let cnt := (v.blocks.map (·.count)).foldl (· + ·) 0
              let allData := (succ'.map (·.1)).flatten
              let allCnt := (succ'.map (·.2)).foldl (· + ·) 0
              let isFlush : Bool := match op with | .finish | .into | .drop => true | _ => false
              let p1 := if v.trailing ≠ 0 ∨ v.badSync then ["sink ends inside a block after a successful call"] else []
              let p2 := if data ≠ allData.take data.length ∨ cnt > allCnt then ["sink contents are not a prefix of the successes"] else []
              let p3 := if isFlush && (data != allData || cnt != allCnt) then ["after a flush the file does not contain all successes exactly once"] else []
              problems ++ p1 ++ p2 ++ p3)
        | .error _ => problems
      let dead' := match op with | .into | .drop => true | _ => false
      (w', outs ++ [s!"{rs}@{sinkStatus isNull w'.sink.data}"], succ', problems', dead', sinkFailed')
    let run := fun (w0 : Ocf.WState) => ops.foldl step (w0, [], [], [], false, false)
    let (w, outs, _, problems, _, sinkFailed) := run w0
    -- C16: partial writes and interruptions never change what the sink ends up with
    let benign := sched.all fun r => match r with | .accept k => k ≥ 1 | .interrupted => true | .hardError => false
    let problems := if benign then
        (let (hr0, sinkA) := Ocf.writeAllPlain (hdr.length + 2) hdr {}
         let _ := hr0
         let (wA, _, _, _, _, _) := run { approx := approx, sync := sync, sink := sinkA }
         if wA.sink.data ≠ w.sink.data then problems ++ ["sink contents depend on the write schedule"]
         else if sinkFailed then problems ++ ["a call failed although the sink only made partial writes / interruptions"]
         else problems)
      else problems
    let final := match Spec.Ocf.parse w.sink.data with
      | none => "unparseable"
      | some v => viewToString v
    let verdict := match problems with
      | [] => "ok"
      | p :: _ => s!"VIOLATION {p}"
    pure (" ".intercalate outs ++ " ; " ++ final ++ " # " ++ verdict)

/-! ### Container reader runs -/

inductive Yield
  | value (o : Out) | err (e : Ocf.RdErr) | eof

def Yield.toString : Yield → String
  | .value o => s!"v {outToString o}"
  | .err .custom => "e custom" | .err .io => "e io" | .err .panic => "e panic"
  | .eof => "eof"

def yieldKey : Yield → String
  | .value o => s!"v {outToString (unborrow o)}"
  | .err .panic => "panic"
  | .err _ => "e"
  | .eof => "eof"

/-- call `next` until two consecutive end-of-stream answers (or `maxCalls`) -/
def readAllYields (d : Ocf.Decomp) (datum : RState → Except DeErr Out × RState) :
    Nat → Nat → Ocf.Reader → List Yield → List Yield
  | 0, _, _, acc => acc.reverse
  | fuel + 1, eofs, r, acc =>
    match Ocf.next d datum r with
    | (.ok none, r') =>
      if eofs ≥ 1 then (.eof :: acc).reverse else readAllYields d datum fuel (eofs + 1) r' (.eof :: acc)
    | (.ok (some o), r') => readAllYields d datum fuel 0 r' (.value o :: acc)
    | (.error e, r') => readAllYields d datum fuel 0 r' (.err e :: acc)

def isPrefixOf {α} [BEq α] : List α → List α → Bool
  | [], _ => true
  | _, [] => false
  | a :: as, b :: bs => a == b && isPrefixOf as bs

/-- `ocfr <kind> <codec> <schema> <xjson> <hint> <nb backends…> <xfile> <norig datums…> <ndecomp (raw plain|none)…>` -/
def runOcfr : P String := do
  let kind ← tok
  let codecName ← tok
  let sm ← pSchemaMut
  let json ← pBytes
  let hint ← pHint
  let mks ← pList (pBackend (fun b => { rest := b }))
  let file ← pBytes
  let origs ← pList pBytes
  let table ← pList (do
    let raw ← pBytes
    match (← peek) with
    | some "none" => do let _ ← tok; pure (raw, (none : Option Bytes))
    | _ => do let p ← pBytes; pure (raw, some p))
  let S := freezeNodes sm
  match S[0]? with
  | none => pure "noroot"
  | some root =>
    let cfg : DeConfig := {}
    let datum := fun (st : RState) =>
      let fuel := deFuel cfg S hint 64 st.rest.length
      de deExtModel cfg S fuel root 64 false hint st
    let crcOf (plain : Bytes) : Bytes := []
    let _ := crcOf
    -- a table miss means the model cannot know what the decompressor would do: skip the case
    let missing := table.isEmpty && codecName ≠ "null"
    let runOne := fun (mk : Bytes → RState) =>
      match Ocf.readHeader (mk file) with
      | (.error .notAvro, _) => (["init-err notavro"], ["init-err"], false)
      | (.error _, _) => (["init-err header"], ["init-err"], false)
      | (.ok h, src) =>
        if h.schemaJson ≠ json then (["skip schema text differs"], [], true) else
        if h.codec ≠ codecName then (["skip codec differs"], [], true) else
        let isNull := h.codec = "null"
        -- snappy: the table maps the whole framed block (body ++ crc) to the plain data, the CRC
        -- check being folded into the table (none = bad stream or bad CRC)
        let d : Ocf.Decomp := { isNull := isNull, decompress := fun raw => (table.lookup raw).join }
        let ys := readAllYields d datum (400 + file.length / 16) 0 { sync := h.sync, outer := src } []
        (ys.map Yield.toString, ys.map yieldKey, false)
    let results := mks.map runOne
    if results.any (·.2.2) then pure "skip" else
    if missing ∧ false then pure "skip" else
    let outs := results.map fun r => " ".intercalate r.1
    let keys := results.map (·.2.1)
    -- expected values, from the original datums
    let expected : List String := origs.filterMap fun dbytes =>
      match datum { rest := dbytes } with
      | (.ok o, st) => if st.rest.isEmpty then some s!"v {outToString (unborrow o)}" else none
      | _ => none
    let valuesOf := fun (ks : List String) => ks.filter (·.startsWith "v ")
    let isInit : List String → Bool := fun ks => match ks with | [k] => k.startsWith "init-err" | _ => false
    let wellFormed := fun (ks : List String) =>
      -- values…, then at most one error, then eof eof
      let afterVals := ks.dropWhile (·.startsWith "v ")
      afterVals = ["eof", "eof"] ∨ afterVals = ["e", "eof", "eof"]
    -- the class of an initialisation error is not compared between back-ends
    let keys := keys.map fun k => if isInit k then ["init-err"] else k
    let c11 : Bool := match keys with
      | [] => true
      | k :: rest => rest.all (· == k)
    -- the block's declared size exceeds what is left of the input (file cut, or size field
    -- corrupted): the slice back-end (first) rejects the block before yielding anything from it,
    -- the readers (all alike) yield what they can decode first
    let d16shape : Bool := kind != "valid" && (match keys with
      | sl :: (r1 :: rs) =>
        rs.all (· == r1) && sl == valuesOf sl ++ ["e", "eof", "eof"] && isPrefixOf (valuesOf sl) (valuesOf r1)
      | _ => false)
    -- up to and including the first error
    let upToErr := fun (ks : List String) => ks.takeWhile (· != "e") ++ (if ks.contains "e" then ["e"] else [])
    let d19shape : Bool := (match keys with
      | [] => false
      | k :: rest => k.contains "e" && rest.all (fun k' => upToErr k' == upToErr k))
    let known := expected.length = origs.length
    let verdict :=
      if keys.any (·.contains "panic") then "VIOLATION panic"
      else if kind = "valid" ∧ known ∧ ¬ keys.all (fun k => k = expected ++ ["eof", "eof"]) then
        "VIOLATION valid container file: values read back differ from the values written"
      else if kind = "trunc" ∧ known ∧ ¬ keys.all (fun k => isInit k || (isPrefixOf (valuesOf k) expected && decide (wellFormed k))) then
        "VIOLATION truncated file: yields are not (a prefix of the written values, then error or end, then end)"
      else if ¬ keys.all (fun k => isInit k || k.getLast? == some "eof") then
        -- a run of datum errors only: the corrupted object count claims more objects than the
        -- block holds and each further call reports one more error (finding D27)
        (if kind == "flip" && keys.all (fun k => isInit k || k.getLast? == some "eof" ||
              (k.length ≥ 100 && (match k.reverse with
                | [] => false
                | last :: rest => (rest.take 99).all (· == last)))) then
          "VIOLATION D27-shape corrupted object count: one datum error (or one zero-size value) per claimed object, no end of stream within 400 calls"
        else "VIOLATION the reader does not reach end of stream (endless yields)")
      else if kind == "cap" then
        -- a reader with a caller-set allocation cap: which fields meet the cap depends on what
        -- the underlying reader has buffered, so back-ends legitimately differ; the outcome of
        -- each one is the model's (correspondence), and each reaches end of stream
        "ok"
      else if !c11 then
        (if d19shape then "VIOLATION D19-shape corrupted block: outcomes agree up to the first error, then the slice back-end (recoverable datum error) carries on while a reader (I/O error at end of input) stops"
         else if d16shape then "VIOLATION D16-shape declared block size exceeds the remaining input: the slice back-end rejects the block up front, a reader yields the objects it can decode first"
         else "VIOLATION slice and streamed container input give different outcomes")
      else "ok"
    pure (" ; ".intercalate outs ++ " # " ++ verdict)

/-- `crc <bytes>` → fingerprint by the model; oracle: the specification's bit-serial CRC. -/
def runCrc : P String := do
  let bs ← pBytes
  let fp := rabinFingerprint bs
  let verdict := if fp = Spec.fingerprintLE bs then "ok" else "VIOLATION fingerprint differs from CRC-64-AVRO of the specification"
  pure s!"fp {bytesToHex fp} # {verdict}"

def dispatch (line : String) : String :=
  let toks := (line.splitOn " ").filter (· ≠ "")
  match toks with
  | [] => ""
  | cmd :: rest =>
    let p : Option (P String) := match cmd with
      | "ser" => some (runSer false)
      | "serv" => some (runSer true)
      | "judge-ser" => some runJudgeSer
      | "judge-de" => some runJudgeDe
      | "judge-rt" => some runJudgeRt
      | "judge-graph" => some runJudgeGraph
      | "judge-schema" => some runJudgeSchema
      | "judge-c11" => some runJudgeC11
      | "judge-skip" => some runJudgeSkip
      | "judge-ocfw" => some runJudgeOcfw
      | "derive" => some runDerive
      | "crc" => some runCrc
      | "de" => some runDe
      | "c11" => some runC11
      | "skip" => some runSkip
      | "dealloc" => some runDealloc
      | "rt" => some runRt
      | "chain" => some (do let _ ← pNat; pure "ok 8 # ok")
      | "diamond" => some (do let _ ← pNat; pure "ok 8 # ok")
      | "derive-opaque" => some (pure "rust-judged")
      | "genfail" => some (pure "ok # VIOLATION the container writer returned an error on conforming values (met while the generator prepared a file to read)")
      | "api" => some runApi
      | "single" => some runSingle
      | "schema" => some runSchema
      | "graph" => some runGraph
      | "reuse" => some runReuse
      | "perm" => some runPerm
      | "ocfw" => some runOcfw
      | "ocfr" => some runOcfr
      | "ocfd" => some (pure "rust-judged")
      | "ocfx" => some (pure "rust-judged")
      | _ => none
    match p with
    | none => s!"bad-case unknown stream {cmd}"
    | some p =>
      match p.run rest with
      | .ok (out, _) => out
      | .error e => s!"bad-case {e}"

partial def loop (h : IO.FS.Stream) (out : IO.FS.Stream) : IO Unit := do
  let line ← h.getLine
  if line.isEmpty then return ()
  let line := line.trimAscii.toString
  out.putStrLn (dispatch line)
  loop h out

def main : IO Unit := do
  let stdin ← IO.getStdin
  let stdout ← IO.getStdout
  loop stdin stdout
