import AvroModel.Basic.Bytes
import AvroModel.Impl.Schema
import AvroModel.Impl.Ser
import AvroModel.Impl.Serde
import AvroModel.Impl.UnionLookup
import AvroModel.Impl.Varint
import AvroModel.Spec.Crc64
import AvroModel.Spec.Varint
