use crate::proto::*;
use serde::{de::DeserializeOwned, Serialize};
use serde_avro_derive::BuildSchema;

fn dump_nodes(s: &serde_avro_fast::schema::SchemaMut) -> RawSchema {
	use serde_avro_fast::schema::{LogicalType as L, RegularType as T};
	s.nodes()
		.iter()
		.map(|n| RawNode {
			reg: match &n.type_ {
				T::Null => Reg::Null,
				T::Boolean => Reg::Boolean,
				T::Int => Reg::Int,
				T::Long => Reg::Long,
				T::Float => Reg::Float,
				T::Double => Reg::Double,
				T::Bytes => Reg::Bytes,
				T::String => Reg::String,
				T::Array(a) => Reg::Array(a.items.idx()),
				T::Map(m) => Reg::Map(m.values.idx()),
				T::Union(u) => Reg::Union(u.variants.iter().map(|k| k.idx()).collect()),
				T::Record(r) => Reg::Record(
					r.name.fully_qualified_name().to_string(),
					r.fields.iter().map(|f| (f.name.clone(), f.type_.idx())).collect(),
				),
				T::Enum(e) => Reg::Enum(e.name.fully_qualified_name().to_string(), e.symbols.clone()),
				T::Fixed(f) => Reg::Fixed(f.name.fully_qualified_name().to_string(), f.size),
			},
			logical: n.logical_type.as_ref().map(|l| match l {
				L::Decimal(d) => Logical::Decimal(d.scale, d.precision),
				L::Uuid => Logical::Uuid,
				L::Date => Logical::Date,
				L::TimeMillis => Logical::TimeMillis,
				L::TimeMicros => Logical::TimeMicros,
				L::TimestampMillis => Logical::TimestampMillis,
				L::TimestampMicros => Logical::TimestampMicros,
				L::Duration => Logical::Duration,
				L::BigDecimal => Logical::BigDecimal,
				L::Unknown(u) => Logical::Unknown(u.as_str().to_string()),
				_ => Logical::Unknown("?".into()),
			}),
		})
		.collect()
}

/// The SipHash suffix of generic records depends on the compiler's TypeIds: each distinct
/// `_<16 hex digits>` is replaced by `_H<k>`, k in order of first appearance in the node list
/// (the model labels its hashes the same way).
fn normalise_hashes(raw: &mut RawSchema) {
	let mut seen: Vec<String> = vec![];
	let mut fix = |name: &mut String| {
		let bytes = name.as_bytes();
		let mut out = String::new();
		let mut i = 0;
		while i < bytes.len() {
			if bytes[i] == b'_'
				&& i + 17 <= bytes.len()
				&& bytes[i + 1..i + 17].iter().all(|c| c.is_ascii_digit() || (b'a'..=b'f').contains(c))
				&& (i + 17 == bytes.len() || bytes[i + 17] == b'.')
			{
				let h = name[i + 1..i + 17].to_string();
				let k = match seen.iter().position(|x| *x == h) {
					Some(k) => k,
					None => {
						seen.push(h);
						seen.len() - 1
					}
				};
				out.push_str(&format!("_H{k}"));
				i += 17;
			} else {
				out.push(bytes[i] as char);
				i += 1;
			}
		}
		*name = out;
	};
	for n in raw.iter_mut() {
		match &mut n.reg {
			Reg::Record(name, _) | Reg::Enum(name, _) | Reg::Fixed(name, _) => fix(name),
			_ => {}
		}
	}
}

/// A hand-written family the model's program language cannot express (const generics …): the case
/// line only names it, the driver answers `rust-judged`, and the verdict computed here - the
/// property's own oracle on the implementation's outcome - is what counts.
pub fn run_family_opaque<T>(name: &str, values: &[T], out: &mut Vec<String>)
where
	T: BuildSchema + Serialize + DeserializeOwned + PartialEq + std::fmt::Debug,
{
	let mut tmp = vec![];
	run_family::<T>("0 unit", values, &mut tmp);
	let outcome = tmp.pop().unwrap_or_else(|| "panic".into());
	let bad: Vec<&str> = outcome
		.split(' ')
		.filter(|t| ["NONDET", "json-REJECTED", "json-err", "schema-err", "err", "rt-NE", "rt-err", "panic", "bad-case"].contains(t))
		.collect();
	out.push(format!("derive-opaque {name}"));
	out.push(if bad.is_empty() {
		format!("{outcome} # ok")
	} else {
		format!("{outcome} # VIOLATION derived schema / round trip of hand-written family {name}: {}", bad.join(" "))
	});
}

/// The same for types that borrow (lifetime parameters): schema building, JSON and serialization
/// only; the bytes are read back with the dynamically typed target and must decode in full.
pub fn run_family_opaque_borrowed<T>(name: &str, values: &[T], out: &mut Vec<String>)
where
	T: BuildSchema + Serialize,
{
	let res = std::panic::catch_unwind(std::panic::AssertUnwindSafe(|| {
		let mut bad: Vec<String> = vec![];
		let g1 = T::schema_mut();
		let g2 = T::schema_mut();
		if dump_nodes(&g1) != dump_nodes(&g2) {
			bad.push("NONDET".into());
		}
		match serde_json_like(&g1) {
			Some(text) => {
				if text.parse::<serde_avro_fast::schema::SchemaMut>().is_err() {
					bad.push("json-REJECTED".into());
				}
			}
			None => bad.push("json-err".into()),
		}
		match T::schema() {
			Err(_) => bad.push("schema-err".into()),
			Ok(schema) => {
				let mut config = serde_avro_fast::ser::SerializerConfig::new(&schema);
				for v in values {
					match serde_avro_fast::to_datum_vec(v, &mut config) {
						Err(_) => bad.push("err".into()),
						Ok(bytes) => {
							if serde_avro_fast::from_datum_slice::<serde::de::IgnoredAny>(&bytes, &schema).is_err() {
								bad.push("rt-err".into());
							}
						}
					}
				}
			}
		}
		bad
	}));
	out.push(format!("derive-opaque {name}"));
	out.push(match res {
		Ok(bad) if bad.is_empty() => "ok # ok".into(),
		Ok(bad) => format!("bad # VIOLATION derived schema / serialization of hand-written family {name}: {}", bad.join(" ")),
		Err(_) => format!("panic # VIOLATION derived schema / serialization of hand-written family {name}: panic"),
	});
}

pub fn run_family<T>(prog: &str, values: &[T], out: &mut Vec<String>)
where
	T: BuildSchema + Serialize + DeserializeOwned + PartialEq + std::fmt::Debug,
{
	// the case line
	let mut case = W::default();
	case.t("derive").t(prog).n(values.len());
	let mut captured = true;
	for v in values {
		match crate::svcap::capture(v) {
			Ok(sv) => {
				case.sv(&sv);
			}
			Err(_) => captured = false,
		}
	}
	if !captured {
		out.push(format!("derive {prog} 0"));
		out.push("bad-case capture failed".into());
		return;
	}
	out.push(case.s);
	// what the crate does
	let res = std::panic::catch_unwind(std::panic::AssertUnwindSafe(|| {
		let mut w = W::default();
		let g1 = T::schema_mut();
		let g2 = T::schema_mut();
		let mut n1 = dump_nodes(&g1);
		let n2 = dump_nodes(&g2);
		let det = n1 == n2;
		normalise_hashes(&mut n1);
		w.t("nodes").schema(&n1).t(if det { "det" } else { "NONDET" });
		// a valid schema: it freezes, and its JSON is accepted back by the schema parser (which
		// rejects a fullname defined twice and dangling references)
		let json = serde_json_like(&g1);
		match &json {
			Some(text) => match text.parse::<serde_avro_fast::schema::SchemaMut>() {
				Ok(_) => w.t("json-ok"),
				Err(_) => w.t("json-REJECTED"),
			},
			None => w.t("json-err"),
		};
		match T::schema() {
			Err(_) => {
				w.t("schema-err");
			}
			Ok(schema) => {
				w.t("schema-ok");
				let mut config = serde_avro_fast::ser::SerializerConfig::new(&schema);
				for v in values {
					w.t(";");
					match serde_avro_fast::to_datum_vec(v, &mut config) {
						Err(_) => {
							w.t("err");
						}
						Ok(bytes) => {
							w.t("ok").t(&hex(&bytes));
							match serde_avro_fast::from_datum_slice::<T>(&bytes, &schema) {
								Ok(back) => w.t(if &back == v { "rt-eq" } else { "rt-NE" }),
								Err(e) => {
									if std::env::var("DERIVE_DEBUG").is_ok() {
										eprintln!("rt-err: {e}");
									}
									w.t("rt-err")
								}
							};
						}
					}
				}
			}
		}
		w.s
	}));
	out.push(res.unwrap_or_else(|_| "panic".into()));
}

/// `serde_json::to_string(&SchemaMut)` without depending on serde_json here: the frozen schema
/// keeps the regenerated JSON.
fn serde_json_like(g: &serde_avro_fast::schema::SchemaMut) -> Option<String> {
	g.clone().freeze().ok().map(|s| s.json().to_string())
}
